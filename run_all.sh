#!/bin/sh
# ./run_all.sh [tier] [seed...]   - every check once per seed; prints one line per run
tier=${1:-quick}; shift
seeds=${@:-0}
for s in $seeds; do
  for i in 01 02 03 04 05 06 07 08 09 10 11 12 13 14 15 16 17 18 19 20; do
    out=$(VERIF_SEED=$s ./check C$i --tier $tier 2>&1); rc=$?
    echo "C$i seed=$s rc=$rc $(echo "$out" | grep -E '^\[C|INCONCLUSIVE' | tail -1) $(echo "$out" | grep -c '^VIOLATION') viol"
  done
done
