"""Token-tree utilities over the recorder's JSON encoding:
  {"i":ident} | {"p":char,"j":1?} | {"l":literal} | {"g":delim,"s":[..]}
"""

CLOSE = {"(": ")", "{": "}", "[": "]", "": ""}


def is_i(t, name=None):
    return "i" in t and (name is None or t["i"] == name)


def is_p(t, ch=None):
    return "p" in t and (ch is None or t["p"] == ch)


def is_g(t, d=None):
    return "g" in t and (d is None or t["g"] == d)


def is_l(t):
    return "l" in t


def leaves(ts, spacing=False, flatten_none=False):
    """Flat leaf sequence; groups contribute their delimiters."""
    out = []

    def go(ts):
        for t in ts:
            if "g" in t:
                d = t["g"]
                if d == "" and flatten_none:
                    go(t["s"])
                    continue
                out.append("<" + d)
                go(t["s"])
                out.append(CLOSE[d] + ">")
            elif "i" in t:
                out.append("i:" + t["i"])
            elif "l" in t:
                out.append("l:" + t["l"])
            else:
                if spacing and t.get("j"):
                    out.append("p:" + t["p"] + "+")
                else:
                    out.append("p:" + t["p"])
    go(ts)
    return out


def eq(a, b, spacing=False):
    return leaves(a, spacing) == leaves(b, spacing)


def render(ts, limit=None):
    """Human-readable rendering (not re-parseable in every corner, for reports only)."""
    parts = []

    def go(ts):
        prev_joint = False
        for t in ts:
            if "g" in t:
                d = t["g"]
                parts.append(d if d else "⟦")
                go(t["s"])
                parts.append(CLOSE[d] if d else "⟧")
                prev_joint = False
            elif "i" in t:
                parts.append(t["i"])
                prev_joint = False
            elif "l" in t:
                parts.append(t["l"])
                prev_joint = False
            else:
                if prev_joint and parts:
                    parts[-1] = parts[-1] + t["p"]
                else:
                    parts.append(t["p"])
                prev_joint = bool(t.get("j"))
    go(ts)
    s = " ".join(parts)
    if limit and len(s) > limit:
        s = s[:limit] + " ..."
    return s


def to_rust(ts):
    """Rendering that rustc can parse again (None-delimited groups are flattened into parens-free text)."""
    parts = []

    def go(ts):
        prev_joint = False
        for t in ts:
            if "g" in t:
                d = t["g"]
                if d:
                    parts.append(d)
                go(t["s"])
                if d:
                    parts.append(CLOSE[d])
                prev_joint = False
            elif "i" in t:
                if prev_joint and parts and parts[-1].endswith("'"):
                    parts[-1] = parts[-1] + t["i"]
                else:
                    parts.append(t["i"])
                prev_joint = False
            elif "l" in t:
                parts.append(t["l"])
                prev_joint = False
            else:
                if prev_joint and parts:
                    parts[-1] = parts[-1] + t["p"]
                else:
                    parts.append(t["p"])
                prev_joint = bool(t.get("j"))
    go(ts)
    return " ".join(parts)


def split_attrs(ts, start=0):
    """Leading outer attributes: returns (list of bracket-group token lists, index after them)."""
    attrs = []
    i = start
    while i + 1 < len(ts) and is_p(ts[i], "#"):
        if is_g(ts[i + 1], "["):
            attrs.append(ts[i + 1]["s"])
            i += 2
        elif i + 2 < len(ts) and is_p(ts[i + 1], "!") and is_g(ts[i + 2], "["):
            # an inner attribute (`#![..]`) in front of the first item of a module body
            attrs.append(ts[i + 2]["s"])
            i += 3
        else:
            break
    return attrs, i


def split_items(ts):
    """Split a top-level token list into items: an item ends with a top-level `;` or with a
    brace group (plus directly following `;`s are kept as separate empty items)."""
    def ends(t):
        # a macro_rules fragment (None-delimited group) ends an item if its own last token does (`$i:item`, `$b:block`)
        if is_p(t, ";") or is_g(t, "{"):
            return True
        return "g" in t and t["g"] == "" and bool(t["s"]) and ends(t["s"][-1])
    items = []
    cur = []
    for t in ts:
        cur.append(t)
        if ends(t):
            items.append(cur)
            cur = []
    if cur:
        items.append(cur)
    return items


def skip_vis(ts, i):
    """Index after an optional visibility at ts[i:]."""
    if i < len(ts) and is_i(ts[i], "pub"):
        i += 1
        if i < len(ts) and is_g(ts[i], "("):
            inner = ts[i]["s"]
            if inner and is_i(inner[0]) and inner[0]["i"] in ("crate", "super", "self", "in"):
                i += 1
    return i


def vis_of(ts, i):
    j = skip_vis(ts, i)
    return ts[i:j], j


def idents(ts):
    out = []

    def go(ts):
        for t in ts:
            if "g" in t:
                go(t["s"])
            elif "i" in t:
                out.append(t["i"])
    go(ts)
    return out


def attr_path(attr_tokens):
    """Path of an attribute as 'a::b::c' (leading :: kept)."""
    s = ""
    for t in attr_tokens:
        if "i" in t:
            s += t["i"]
        elif is_p(t, ":"):
            s += ":"
        else:
            break
    return s


def item_kind(item):
    """(attrs, vis_tokens, kind, name, rest_index) of an item token list."""
    attrs, i = split_attrs(item)
    vis, i = vis_of(item, i)
    j = i
    quals = []
    while j < len(item) and is_i(item[j]) and item[j]["i"] in ("unsafe", "async", "const", "extern", "default", "auto"):
        quals.append(item[j]["i"])
        j += 1
        if quals[-1] == "extern" and j < len(item) and is_l(item[j]):
            j += 1
    kind = item[j]["i"] if j < len(item) and is_i(item[j]) else None
    name = None
    if kind in ("trait", "fn", "mod", "struct", "enum", "type", "use", "static", "union"):
        if j + 1 < len(item) and is_i(item[j + 1]):
            name = item[j + 1]["i"]
    return {"attrs": attrs, "vis": vis, "quals": quals, "kind": kind, "name": name, "at": j}


def find_brace(item):
    for idx in range(len(item) - 1, -1, -1):
        if is_g(item[idx], "{"):
            return idx
    return None


def split_commas(ts):
    """Split at top-level commas, tracking < > nesting (for generics / params)."""
    out, cur, depth = [], [], 0
    prev = None
    for t in ts:
        if is_p(t, "<"):
            depth += 1
        elif is_p(t, ">") and not (prev is not None and is_p(prev, "-")):
            depth = max(0, depth - 1)
        if is_p(t, ",") and depth == 0:
            out.append(cur)
            cur = []
        else:
            cur.append(t)
        prev = t
    if cur:
        out.append(cur)
    return out


def contains_seq(hay, needle):
    """Does leaf sequence `needle` occur contiguously in `hay` (both leaf lists)?"""
    n = len(needle)
    if n == 0:
        return True
    first = needle[0]
    for i in range(len(hay) - n + 1):
        if hay[i] == first and hay[i:i + n] == needle:
            return True
    return False


def walk_paths(ts, watch):
    """Yield (ident, rooted) for each occurrence of a watch-listed identifier, where rooted
    says whether the path it sits in starts with `::` (absolute)."""
    res = []

    def go(ts):
        n = len(ts)
        for i, t in enumerate(ts):
            if "g" in t:
                go(t["s"])
                continue
            if "i" in t and t["i"] in watch:
                # walk back over `seg ::` pairs
                j = i
                rooted = False
                while True:
                    if j >= 2 and is_p(ts[j - 1], ":") and is_p(ts[j - 2], ":"):
                        if j >= 3 and "i" in ts[j - 3]:
                            j -= 3
                            continue
                        # `::` with nothing (or a non-ident, e.g. `>` of a qself) before it
                        rooted = not (j >= 3 and is_p(ts[j - 3], ">"))
                        if j >= 3 and is_p(ts[j - 3], ">"):
                            rooted = True  # <T as X>::name : not a bare name lookup
                        break
                    break
                res.append((t["i"], rooted, j == i))
    go(ts)
    return res
