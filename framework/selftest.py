"""Probe self-test: a case whose expected answers are fixed Rust facts. If a probe answers
wrongly the run is inconclusive (the monitor itself is broken)."""
from .core import Case, Inconclusive

SRC = r"""
pub trait Plain {}
pub struct Yes; pub struct No;
impl Plain for Yes {}
mod inner {
    pub trait PubT {}
    trait PrivT {}
    pub(super) trait SuperT {}
    pub struct PubS;
    struct PrivS;
    pub mod deeper { pub(in super::super) trait InT {} }
    pub trait Blanket {}
    impl<T: ::core::marker::Sync + 'static> Blanket for T {}
}
trait SendFut { fn f(&self) -> impl ::core::future::Future<Output = ()> + ::core::marker::Send; }
trait LocalFut { fn f(&self) -> impl ::core::future::Future<Output = ()>; }
fn p_send<D: SendFut>(d: &D) -> bool { let fut = d.f(); ::vrt::value_is!(&fut ; ::core::marker::Send) }
fn p_local<D: LocalFut>(d: &D) -> bool { let fut = d.f(); ::vrt::value_is!(&fut ; ::core::marker::Send) }
impl SendFut for Yes { fn f(&self) -> impl ::core::future::Future<Output = ()> + ::core::marker::Send { async {} } }
impl LocalFut for Yes { fn f(&self) -> impl ::core::future::Future<Output = ()> { async {} } }
fn traced<D>(d: &D, a: i32) -> i32 { ::vrt::enter("selftest::traced", ::vrt::tn(d), ::vrt::addr(d), &[&a as &dyn ::core::fmt::Debug]); a + 1 }
pub fn run() {
    ::vrt::fact("yes_plain", ::vrt::implements!(Yes: Plain));
    ::vrt::fact("no_plain", ::vrt::implements!(No: Plain));
    ::vrt::fact("cell_sync", ::vrt::implements!(::core::cell::Cell<u8>: ::core::marker::Sync));
    ::vrt::fact("u8_sync", ::vrt::implements!(u8: ::core::marker::Sync));
    ::vrt::fact("vis_pub", ::vrt::visible_trait!(self::inner, PubT));
    ::vrt::fact("vis_priv", ::vrt::visible_trait!(self::inner, PrivT));
    ::vrt::fact("vis_super", ::vrt::visible_trait!(self::inner, SuperT));
    ::vrt::fact("vis_in", ::vrt::visible_trait!(self::inner::deeper, InT));
    ::vrt::fact("vis_blanket", ::vrt::visible_trait!(self::inner, Blanket));
    ::vrt::fact("vis_missing", ::vrt::visible_trait!(self::inner, Missing));
    ::vrt::fact("ty_pub", ::vrt::exists_type!(self::inner, PubS).contains("inner::PubS"));
    ::vrt::fact("ty_priv", ::vrt::exists_type!(self::inner, PrivS).contains("inner::PrivS"));
    ::vrt::fact("send_declared", p_send(&Yes));
    ::vrt::fact("send_undeclared", p_local(&Yes));
    let a0 = ::vrt::allocs();
    let b = ::std::boxed::Box::new(5u64);
    let a1 = ::vrt::allocs();
    ::vrt::fact("alloc_counted", a1 - a0);
    ::core::mem::drop(b);
    ::vrt::phase("traced");
    let y = Yes;
    let r = traced(&y, 41);
    ::vrt::result(&r);
    ::vrt::kv("addr", ::vrt::addr(&y));
    ::vrt::phase("async");
    let r = ::vrt::block_on(async { ::vrt::yield_once().await; 7 });
    ::vrt::result(&r);
    ::vrt::record_polls();
}
"""

EXPECT = {
    "yes_plain": "true", "no_plain": "false", "cell_sync": "false", "u8_sync": "true",
    "vis_pub": "true", "vis_priv": "false", "vis_super": "true", "vis_in": "true", "vis_missing": "false", "vis_blanket": "true",
    "ty_pub": "true", "ty_priv": "false", "send_declared": "true", "send_undeclared": "false",
    "alloc_counted": "1",
}


def case(cid="selftest"):
    return Case(cid, SRC, meta={"selftest": True}, tags=["selftest"])


def verify(c, tag="bin"):
    rec = c.runrec.get(tag)
    if c.removed is not None:
        raise Inconclusive("probe self-test did not compile: %s" % (c.removed,))
    if not rec or rec.get("panic") or rec.get("crash"):
        raise Inconclusive("probe self-test did not run: %s" % (rec,))
    for k, v in EXPECT.items():
        if rec["facts"].get(k) != v:
            raise Inconclusive("probe self-test: %s answered %s, expected %s" % (k, rec["facts"].get(k), v))
    ph = {p["label"]: p for p in rec["phases"]}
    t = ph.get("traced")
    if not t or len(t["events"]) != 1 or t["events"][0]["fn"] != "selftest::traced" or t["events"][0]["args"] != ["41"] \
            or str(t["events"][0]["addr"]) != t["kv"].get("addr") or t["result"] != "42":
        raise Inconclusive("probe self-test: trace channel broken: %s" % (t,))
    a = ph.get("async")
    if not a or a["result"] != "7" or int(a["kv"].get("polls", "0")) != 2:
        raise Inconclusive("probe self-test: executor broken: %s" % (a,))
    return True
