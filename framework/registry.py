"""Registry of claimed checks -> MANIFEST.json (run: python3 -m framework.registry)."""
import json
import subprocess
from pathlib import Path

VERIF = Path(__file__).resolve().parent.parent

CHECKS = {}
NOT_APPLICABLE = {}


def reg(pid, text, note, technique, design_ref):
    CHECKS[pid] = dict(text=text, note=note, technique=technique, design_ref=design_ref)


reg("C01",
    "Exploration by runtime monitoring: generated client crates are compiled against the working tree of /repo and run; "
    "a trace monitor inside the user fn bodies records (fn id, dependency type and identity, Debug of every argument) and "
    "the checker compares the trait-call trace/result with the direct-call twin and with the generator's ground truth. "
    "Holds on the sampled signatures/options/feature settings only.",
    "Trusts rustc, the vrt trace runtime (self-tested every run) and that generated bodies are value-parametric.",
    "runtime trace monitor + differential twin oracle over generated clients", "DESIGN.md §4 C01")


reg("C02",
    "Exploration: the expansion recorder hook logs the token trees the macro received and returned inside real rustc "
    "processes; an offline checker compares them leaf by leaf (fn: output starts with the input; mod: header and items are a "
    "prefix, trait+impl appended, re-export after; impl: inherent block equals the input minus `Trait for`), including punctuation "
    "spacing inside bodies. Holds for the generated corpus (token-soup bodies, attributes, qualifiers, item mixes).",
    "Trusts the recorder's serialisation (self-consistent: same code serialises input and output) and rustc handing the macro the tokens it shows.",
    "expansion recorder hook + offline token-prefix oracle", "DESIGN.md §4 C02")

reg("C15",
    "Exploration: grammar fuzz of attribute arguments, parameter patterns, trait methods and unsupported items through real rustc; "
    "the recorder's begin/end/panic events show whether an expansion returned, every returned output is re-parsed by the nightly "
    "parser, and the diagnostic stream is matched against the pinned table of documented misuses (message and line).",
    "Trusts rustc's JSON diagnostics and the nightly parser as the parse oracle; inputs that the parser itself rejects are not counted against the macro.",
    "recorder panic/return events + re-parse oracle + diagnostic matching on fuzzed inputs", "DESIGN.md §4 C15")

reg("C20",
    "Exploration: every corpus source is instantiated several times per crate and the workspace is compiled repeatedly under "
    "perturbed environments, job counts and shuffled module/shard order; recorder events are grouped by (variant, attr, input) and "
    "all outputs in a group must be identical token for token (spacing included).",
    "Trusts the recorder; process-level nondeterminism is only sampled (k builds, tens of rustc processes).",
    "expansion recorder + equality-per-input monitor across processes and orders", "DESIGN.md §4 C20")


reg("C16",
    "Exploration, exhaustive within a bound: every parameter pattern list up to length 3 over the property's alphabet (plus "
    "length 4 in the thorough tier and sampled longer lists) is compiled and run; the recorder shows the generated method's "
    "parameter names (one plain identifier each, pairwise distinct, not the fn's name, prescribed names kept), the compiler run "
    "shows the case compiles, and the trace monitor shows positional forwarding (C01 oracle).",
    "Binding names in the enumerated lists are position-unique except for the deliberately colliding ones; longer lists are sampled.",
    "bounded-exhaustive enumeration + recorder naming oracle + runtime trace differential", "DESIGN.md §4 C16")


reg("C03",
    "Exploration: random signatures of the supported class are compiled by real rustc (fix-point compilation so one failing case "
    "cannot mask another); witness lines coerce the function and <App as Trait>::method to one fn-pointer type (parameter types, "
    "lifetime relations, return type, unsafe/extern); the compiled clients are then run under the C01 trace oracle.",
    "The compile half is decided by observing the compiler process that executes the macro; fn-pointer coercion accepts a more general method; async output types are pinned at run time.",
    "compiler-run monitor (diagnostics per generated case) + fn-pointer witnesses + runtime trace differential", "DESIGN.md §4 C03")


reg("C17",
    "Exploration with a metamorphic oracle: groups of invocations that the statement declares equivalent (option order, bare vs "
    "= true, = false vs omitted, entrait_export vs export, unimock cargo feature vs unimock option) are expanded on identical "
    "item tokens in real rustc processes (two builds for the feature); the recorder's outputs inside a class must be "
    "token-identical. The option x target acceptance table is enumerated completely.",
    "Trusts the recorder; equivalence is checked on the sampled items and option subsets, the acceptance table exhaustively (one item per target).",
    "expansion recorder + metamorphic equality monitor + exhaustive acceptance table", "DESIGN.md §4 C17")


reg("C10",
    "Exploration, exhaustive over the finite option lattice (504 points): each point is expanded by real rustc; the recorder shows "
    "which mock attributes sit on the trait and whether they are wrapped in cfg_attr(test, ..); wherever the point can compile it is "
    "also built as a non-test and as a test binary whose run-time probes report whether Unimock implements the trait and whether "
    "the mockall type exists. Both are compared with a small executable model of the documented rules.",
    "One item per target kind; probes rest on rustc method resolution / glob-import rules and are self-tested in every run.",
    "exhaustive lattice enumeration + recorder attribute monitor + run-time existence probes in test/non-test builds", "DESIGN.md §4 C10")


reg("C09",
    "Exploration: random trait definitions x trait-mode option sets are expanded by real rustc; the recorder's input trait is "
    "compared component by component (attributes, visibility, unsafe, header incl. generics/supertraits/where, every item) with the "
    "first emitted item, permitting exactly the macro-owned mock attributes and the documented async rewrite (checked token for token).",
    "Default bodies, associated types and `unsafe trait` are exercised only by pinned known-finding inputs (K1a, K1b, X2b).",
    "expansion recorder + structural token-diff oracle modulo the documented rewrite", "DESIGN.md §4 C09")


reg("C06",
    "Exploration by runtime monitoring: random leaf traits with hand-written providers are compiled and run; a trace monitor in "
    "the provider methods records (provider fn id, provider type, provider address, Debug of arguments); every call on Impl<App> is "
    "compared with the call on the provider itself (exactly one provider event, same identity/arguments/result, awaited when async), "
    "and autoref probes compare `Impl<X>: Trait` with the availability model for provider / non-provider / !Sync / wrong-selector apps.",
    "'static cannot be probed at run time; dyn selectors follow the idioms rustc requires (async needs async_trait, `: 'static`).",
    "runtime trace monitor + differential twin + trait-availability probes", "DESIGN.md §4 C06")


reg("C07",
    "Exploration by runtime monitoring: random delegated traits with 2-3 competing target types (identical method names) are "
    "compiled and run with static and dynamic selection; the trace monitor in the impl-block fns records (target fn id, type and "
    "address of the dependency argument, arguments); a call on Impl<App> must produce exactly one event from the selected target "
    "with the caller's own &Impl<App>, none from a competing target, the nested dependency calls with the same &Impl<App>, and the "
    "result of the inherent fn called directly.",
    "Delegated traits are non-generic (the statement's class); dynamic + borrowed-from-deps returns are a pinned known finding (K11).",
    "runtime trace monitor + differential twin with competing targets", "DESIGN.md §4 C07")


reg("C04",
    "Exploration by runtime monitoring: for random bound declarations (inline/where/impl/split/several module fns, by-ref and "
    "by-value, all mock settings, both features) a family of probe application types - full, one per missing bound, !Sync, !Send, "
    "nothing; bare and wrapped in Impl<_> - is probed at run time for `P: Trait`; answers are compared with a reference model of "
    "bound satisfaction. The recorded impl header is checked for the exact fixed bounds and where-clause bound multiset.",
    "Autoref availability probes (self-tested each run); 'static only via the recorded header; bounds are entraited leaf traits.",
    "trait-availability probes vs reference model + recorder header monitor", "DESIGN.md §4 C04")


reg("C05",
    "Exploration by runtime monitoring: random concrete-dependency fns (type shapes, by-ref with elided/explicit lifetime, by-value, "
    "sync/async, owned/borrowed returns) are compiled and run; the trace monitor in the fn body shows which object it received; calls on "
    "C, Impl<C> and Impl<App> (hand-written adoption) must reach the fn exactly once with &C (address and type) and return what the fn "
    "returns on &C; availability probes cover Impl<X> for an X without the trait; the recorder shows the nested entrait attribute and "
    "that the generated trait was entraited exactly once.",
    "A dependency that is itself a reference is a pinned known finding (K6).",
    "runtime trace monitor + differential twin + availability probes + recorder", "DESIGN.md §4 C05")


reg("C12",
    "Exploration by runtime monitoring: async fn/mod/trait/impl-block cases with and without ?Send are compiled and run; probes "
    "placed in a generic fn (where only the bounds the trait declares are visible) report at run time whether each method's future "
    "is declared Send and what its Output type is, compared with the direct call; the C01/C06/C07 trace oracles decide that the "
    "original async fn ran to completion once with the same result (futures are really suspended: polls >= 2); the recorder decides "
    "that async_trait is re-applied verbatim and async fn kept; compile probes show a non-Send future is rejected by default and accepted with ?Send.",
    "The declared-Send probe rests on rustc not leaking auto traits of opaque return types into generic contexts (self-tested in both polarities every run).",
    "generic-context Send/Output probes + runtime trace oracles + recorder + compile probes", "DESIGN.md §4 C12")


reg("C13",
    "Exploration, exhaustive over requested x item visibilities x input kinds (incl. delegation-target traits): a glob-import "
    "probe evaluated at run time from 7 observation points (defining scope, child, parent, sibling, case root, another module, a "
    "second crate) reports from where each generated trait can be named; compared with a 10-line model of Rust's visibility rules; "
    "the recorder shows the visibility tokens on the emitted traits and the module re-export; the thorough tier cross-checks the probe "
    "with plain `use` items (must compile where visible, E0603/E0432 at the probe line where not).",
    "Nesting depth fixed at 3; the always-pub selector trait is logged, not judged (the statement speaks about the delegation-target trait).",
    "exhaustive enumeration + run-time name-visibility probes vs visibility model + recorder", "DESIGN.md §4 C13")


reg("C08",
    "Exploration: random module bodies (visible fns in every visibility spelling x qualifier combination mixed with private fns, "
    "body-less declarations and ~40 other item kinds that contain `fn` tokens) and all item sequences up to length 2 (quick) / 3 "
    "(thorough) over a 21-item alphabet are expanded by real rustc; the ordered method list of the recorded trait must equal the "
    "generator's list of directly-contained non-private fns. A compiled sub-corpus with distractor items is run under the C01 "
    "oracle, i.e. every method is called from the parent scope through the re-exported trait.",
    "Requested-visibility observation from outside the parent is decided by C13; `const fn` members only on the recorded expansion.",
    "expansion recorder + generator-truth oracle (bounded exhaustive) + runtime trace differential", "DESIGN.md §4 C08")


reg("C18",
    "Exploration by monitoring three channels: the recorder shows where attributes end up (none of the user's on generated traits, "
    "impls, methods or parameters; trait-method attributes mirrored on delegating methods); a foreign attribute macro (vattr::mark) "
    "placed below entrait logs its own invocations, showing it ran exactly once per fn and received the fn as written; compiled "
    "clients show that cfg-disabled members of modules / impl blocks / traits leave nothing dangling and enabled ones are reachable "
    "(trace monitor).",
    "`#[deprecated]` on trait methods is not generated (rustc rejects it on impl items while the statement demands mirroring); cfg/cfg_attr are not combined with the foreign-macro witness because rustc evaluates them first.",
    "recorder + foreign-macro invocation log + compile/run monitor", "DESIGN.md §4 C18")


reg("C19",
    "Exploration by runtime monitoring with benign/hostile twins: cases of the fn/mod, leaf-trait and impl-block generators are "
    "compiled twice, once as they are and once inside a scope that defines 22 items named like every path segment the macro uses; "
    "the hostile twin must compile, satisfy the same trace oracle and produce the same run record; the recorder's expansions of the "
    "hostile twins are scanned for watch-listed identifiers that are not reached through a `::`-rooted path; generated traits named "
    "Sync/Send/Future/AsRef; a #![no_std] library crate with all four input modes is driven from a std binary (trait call == direct call).",
    "User tokens in these corpora use absolute paths only; async_trait's own unhygienic `Box` is excluded from the hostile scope for async_trait cases.",
    "benign/hostile twin differential + recorder path-root scan + no_std client crate", "DESIGN.md §4 C19")


reg("C14",
    "Exploration by runtime monitoring: call chains of depth 1-6 through generated traits (fn, mod, leaf trait, static impl block; "
    "sync and async driven on the stack) are run next to a twin chain of plain generic fns with identical allocating bodies; a "
    "counting global allocator shows both perform the same number of heap allocations (measured twice) with equal results; the "
    "recorder's generated tokens are scanned for dyn/Box/Pin/alloc; in the thorough tier valgrind memcheck's heap summary over the "
    "same binaries is an independent counter.",
    "Debug builds; allocation equality is about counts of twin paths, not absolute numbers.",
    "allocation-count monitor (counting allocator, valgrind cross-check) + differential twin + recorder token scan", "DESIGN.md §4 C14")


reg("C11",
    "Exploration by runtime monitoring in test builds with the unimock feature: for random mockable fn/mod cases every method gets "
    "a clause registered through exactly the mock_api path with distinct values per parameter and its own answer; the mocked call must "
    "return that answer without running the original fn (a permuted argument list or a wrong API path panics or fails to compile); "
    "on a partial mock the trace monitor must show the original fn running once with the Unimock object as dependency, the same "
    "arguments, the nested (mockable) dependency calls and the Impl<T> result; concrete-deps fns and entraited traits must panic with "
    "'cannot be unmocked'; the recorder shows one unmock_with entry per method in order.",
    "Signature class limited to what unimock itself supports (owned/unit returns, matching!-able argument types, no generics).",
    "runtime trace monitor + differential twin on mock objects + recorder", "DESIGN.md §4 C11")


def manifest():
    hooks_commits = subprocess.run(["git", "-C", "/repo", "log", "--format=%H", "--grep=^verif hook"],
                                   stdout=subprocess.PIPE, text=True).stdout.split()
    checks = []
    for pid in sorted(CHECKS):
        c = CHECKS[pid]
        checks.append({
            "property_id": pid,
            "quick_cmd": "./check %s --tier quick" % pid,
            "thorough_cmd": "./check %s --tier thorough" % pid,
            "evidence_file": "/verif/evidence/%s.json" % pid,
            "replay_cmd_template": "./check %s --replay {path}" % pid,
            "engine": "vrt-monitor",
            "level_claimed": {"category": "exploration", "text": c["text"], "design_ref": c["design_ref"]},
            "level_note": c["note"],
            "technique": c["technique"],
        })
    props = [json.loads(l)["id"] for l in (VERIF / "properties.jsonl").read_text().split("\n") if l.strip()]
    na = [{"property_id": p, "reason": NOT_APPLICABLE.get(p, "check not built yet in this round; planned in DESIGN.md §4")}
          for p in props if p not in CHECKS]
    m = {
        "version": 1,
        "setup_cmd": "./setup.sh",
        "hooks": {
            "guard": "--cfg audunhalland_entrait_verif",
            "enable": "RUSTFLAGS='--cfg audunhalland_entrait_verif' (set by framework/core.py for every cargo invocation); "
                      "the recorder additionally needs ENTRAIT_VERIF_DUMP=<dir> at expansion time",
            "baseline_off_cmd": "cd /repo && cargo nextest run --workspace --no-fail-fast --test-threads 8 --offline || cargo test --workspace --no-fail-fast --offline",
            "source_commits": hooks_commits,
            "add_only": True,
        },
        "engines": [{"name": "vrt-monitor", "path": "/verif/framework",
                     "serves_properties": sorted(CHECKS),
                     "kind_free_text": "python-driven generators of client crates, expansion recorder hook in entrait_macros, "
                                       "client runtime (trace, probes, counting allocator), offline checkers over the logs"}],
        "checks": checks,
        "not_applicable": na,
        "notes": "Exit codes: 0 held on everything explored, 1 violation (VIOLATION line), 2 inconclusive (INCONCLUSIVE line). "
                 "Known findings: /verif/known_findings.json.",
    }
    return m


if __name__ == "__main__":
    (VERIF / "MANIFEST.json").write_text(json.dumps(manifest(), indent=1) + "\n")
    print("MANIFEST.json written: %d checks" % len(CHECKS))
