"""Expansion-only inputs rich in tokens: attributes, visibilities, qualifiers, where clauses,
bodies of token soup the parser accepts, module item mixes, impl blocks."""

FN_ATTRS = [
    "/// Summary.\n///\n/// ```text\n/// example\n/// ```\n///\n/// More.",     # token-identical doc attributes (blank lines, fences)
    "#[allow(unused)]\n#[allow(unused)]",
    "/// a doc comment with \"quotes\" and \\ backslash",
    "/** block doc */",
    "#[doc = \"explicit doc\"]",
    "#[doc(hidden)]",
    "#[inline]",
    "#[inline(always)]",
    "#[must_use]",
    "#[must_use = \"reason\"]",
    "#[allow(unused_variables, dead_code)]",
    "#[allow(clippy::too_many_arguments)]",
    "#[deny(unsafe_op_in_unsafe_fn)]",
    "#[deprecated(since = \"0.1.0\", note = \"n\")]",
    "#[cfg_attr(all(), inline)]",
    "#[cfg_attr(any(), some_unknown_attr)]",
    "#[rustfmt::skip]",
    "#[track_caller]",
    "#[cold]",
    "#[::vattr::mark(a, b = \"c\", [d] {e} (f), 1.5e3, 'x', b\"bytes\", r#\"raw\"#)]",
    "#[::vattr::mark]",
    "#[::vattr::mark(x = y::z<w>)]",
    # enabled cfg predicates, singly and several distinct ones on one fn (they are mirrored onto generated methods, in order)
    "#[cfg(all())]",
    "#[cfg(not(any()))]",
    "#[cfg(all())]\n#[cfg(not(any()))]\n#[cfg(any(unix, not(unix)))]\n#[cfg(all(all()))]",
    "#[cfg(any(unix, windows, not(unix)))]\n#[cfg(not(all(any())))]\n#[cfg(all(not(any())))]",
]

VIS = ["", "pub", "pub(crate)", "pub(super)", "pub(self)", "pub(in crate)", "pub(in super)", "pub(in self)", "crate_vis_placeholder"]

QUALS = ["", "", "", "async", "unsafe", "const", "extern \"C\"", "extern \"system\"", "extern", "const unsafe", "async unsafe",
         "unsafe extern \"C\"", "const unsafe extern \"C\""]

DEPS = [
    ("<D>", "deps: &D", ""),
    ("<D: Clone + 'static>", "deps: &D", ""),
    ("<D>", "deps: &D", "where D: Clone + ::core::fmt::Debug,"),
    ("<D>", "deps: D", "where D: Copy"),
    ("", "deps: &impl Clone", ""),
    ("", "deps: &(impl Clone + Send)", ""),
    ("", "deps: impl Clone", ""),
    ("<'a, D: 'a>", "deps: &'a D", ""),
    ("<'a, 'b: 'a, D>", "deps: &'a D", ""),
    ("<D, T: Default, const N: usize>", "deps: &D", "where T: Clone, [u8; N]: Sized,"),
    ("<D, F: for<'x> Fn(&'x u8) -> &'x u8>", "deps: &D", ""),
    ("", "deps: &SomeConcrete", ""),
    ("", "deps: &some::path::Concrete<u8>", ""),
    ("", "deps: &(u8, i8)", ""),
    ("", "deps: &[u8; 4]", ""),
    ("", "_: &impl Sized", ""),
]

PARAMS = [
    "a: i32", "mut b: u8", "ref c: String", "r#type: bool", "_: u8", "(x, y): (i32, i32)", "N(v): N", "S { f, .. }: S",
    "&r: &i32", "[p, q]: [u8; 2]", "z: &mut Vec<u8>", "w: impl Fn(u8) -> u8", "k: &dyn ::core::fmt::Debug",
    "t: Option<Result<Vec<u8>, ()>>", "u: [u8; { 1 + 2 }]", "g: fn(u8) -> u8", "h: *const u8", "#[allow(unused)] at: u8",
    "l: &'static str", "m: Box<dyn Fn() + Send + 'static>", "o: (u8,)", "e: ()",
    # bindings a lexical heuristic may stumble over: all-underscore names, non-ASCII letters, caseless scripts, upper case, digits
    "(__, hh): (u32, u32)", "N(___): N", "N(épaisseur): N", "(xx, λ): (u8, u8)", "N(名): N", "N(_1): N", "N(__x9): N", "(Ok(vv) | Err(vv)): Result<i32, i32>",
    "__: u8", "___: u8",
]

RETS = ["", "-> i32", "-> ()", "-> Result<Vec<u8>, Box<dyn ::std::error::Error>>", "-> impl Clone", "-> !", "-> (u8, i8)",
        "-> Option<&'static str>", "-> [u8; 3]", "-> Box<dyn Fn(u8) -> u8>"]

STMTS = [
    "let x = 1 + 2 * 3 - 4 / 5 % 6;",
    "let y = |a: u8, b| -> u8 { a + b };",
    "let s = \"string with { braces } and ; semis\";",
    "let r = r#\"raw \"string\" \"#;",
    "let b = b\"bytes\\x00\";",
    "let c = 'c'; let bc = b'b'; let lt: &'static str = \"\";",
    "let n = 1_000u64 + 0xffu64 + 0o7 + 0b1 + 1.5e-3f64 as u64;",
    "'outer: loop { break 'outer; }",
    "for i in 0..=10 { if i == 3 { continue; } }",
    "while let Some(_) = None::<u8> {}",
    "match x { 0 => {}, 1 | 2 => (), n @ 3..=9 if n > 4 => {}, _ => unreachable!(), }",
    "let v = vec![1, 2, 3]; let w = [0u8; 4]; let t = (1, 2.0, \"3\");",
    "println!(\"{} {:?} {x}\", 1, 2);",
    "some_macro! { arbitrary tokens => here ; $ # @ }",
    "other::path::mac![a, b; c];",
    "fn nested<T>(t: T) -> T { t }",
    "struct Local { a: u8 } impl Local { pub fn get(&self) -> u8 { self.a } }",
    "let z = Vec::<u8>::with_capacity(1).iter().map(|x| x + 1).collect::<Vec<_>>();",
    "let q = <u8 as ::core::convert::From<u8>>::from(1);",
    "let a = &mut *&mut 5; *a += 1; *a <<= 2; *a >>= 1; *a ^= 1; *a |= 1; *a &= 1;",
    "let f = x as f64; let neg = -x; let not = !true; let rng = ..; let r2 = 1..; let r3 = ..=2;",
    "if let Some(x) = Some(1) && true {}",
    "let _ = async { 1 }; let _ = async move { 2 };",
    "unsafe { ::core::hint::unreachable_unchecked() }",
    "let _ = try { 1 };",
    "do yeet 1;",
    "let _ = become_this();",
    "let _ = builtin # offset_of(A, b);",
    "let _ = const { 1 + 1 };",
    "let _: unsafe<'a> fn(&'a u8);",
    "let _ = &raw const x; let _ = &raw mut y;",
    "let _ = x.use;",
    "return;",
    "#[allow(unused)] let attr_stmt = 1;",
    "#![allow(inner_attribute)]",
    "let _ = a?.b?.c.await?;",
    "let S { a, b: (c, d), .. } = s; let [h, .., t] = arr; let (m, n) | (n, m) = p;",
    "let _ = move || async move { yield_(); };",
    "static X: u8 = 1; const Y: u8 = { 2 };",
    "let _ = 1 ..= 2; let _ = a .. b; let _ = a::<b>::c; let _ = a -> b;" if False else "let _ = 1 ..= 2; let _ = a .. b; let _ = a::<b>::c;",
    "let _ = $crate_like::x;" if False else "let _ = crate::x::Y { a: 1, ..Default::default() };",
    "let _ = x as usize < y;",
    "let _ = (a < b) == (c > d); let _ = a << b >> c; let _ = a <= b && c >= d || e != f;",
    "let _ = &&x; let _ = x & &y; let _ = **z;",
    "macro_rules! local { ($($t:tt)*) => { $($t)* }; }",
    "let _ = i32::MAX - -1;",
    "let _ = x.0.1.2; let _ = t.0 .1;",
    "let _ = '\\u{1F600}'; let _ = \"\\u{1F600} multi\\\n   line\";",
    "loop { break; }",
    "let _ = #[cfg(all())] 5;",
    "let _ = ::std::mem::size_of::<[u8; { 3 }]>();",
    "let ___ = r#fn + r#match;",
]

TEST_MODS = [
    "#[cfg(test)] mod tests { use super::*; #[test] fn it_works() {} }",
    "#[cfg(test)]\nmod tests {\n    #[test] fn a() {}\n    pub fn helper<D>(deps: &D) {}\n}",
    "/// docs\n#[cfg(test)] #[allow(unused)] pub(crate) mod tests { pub fn in_tests() {} }",
    "#[cfg(all(test, not(miri)))] mod tests { fn t() {} }",
    "#[cfg(test)] mod tests {}",
]

MOD_ITEMS_OTHER = [
    # body-less declarations (kept as opaque items) with a brace-delimited const argument at the top level of the signature
    "#[cfg(any())] pub fn decl_blk<D>(deps: &D) -> ArrN<{ 2 * 2 }>;",
    "pub fn decl_blk_where<D>(deps: &D) -> [u8; { 1 + 1 }] where ArrN<{ 1 + 1 }>: Sized, D: Clone;",
    # brace-bodied items whose header ends in a comma (a where clause with a trailing comma, as rustfmt writes it) or contains a
    # brace-delimited const argument
    "fn private_where<T>(t: T) -> T where T: Clone, { t }",
    "pub struct WhereS<T> where T: Clone, { pub t: T }",
    "impl<T> WhereS<T> where T: Clone, { pub fn in_impl_w(&self) {} }",
    "struct ArrN<const N: usize>; impl ArrN<{ 1 + 1 }> { fn in_arr(&self) {} }",
    "use super::*;",
    "use ::core::{fmt::{self, Debug}, marker::PhantomData as PD};",
    "pub struct Unit;",
    "pub(crate) struct Tup(pub u8, u8);",
    "#[derive(Clone)] pub struct Named { pub a: u8, b: fn(u8) -> u8 }",
    "pub enum E { A, B(u8), C { pub_fn: u8 } }",
    "pub const C0: u8 = { fn inner() -> u8 { 1 } 2 };",
    "const C1: [u8; 2] = [1, 2];",
    "pub static S0: &str = \"pub fn not_a_fn() {}\";",
    "static mut S1: u8 = 0;",
    "pub type Alias = fn(u8) -> u8;",
    "type Priv<T> = Option<T>;",
    "impl Unit { pub fn method(&self) {} pub async fn am(&self) {} }",
    "pub trait LocalTrait { fn req(&self); fn prov(&self) {} }",
    "impl LocalTrait for Unit { fn req(&self) {} }",
    "macro_rules! def_fn { ($n:ident) => { pub fn $n() {} }; }",
    "def_fn!(made_by_macro);",
    "def_fn! { braced }",
    "def_fn![bracketed];",
    "pub mod nested { pub fn in_nested<D>(deps: &D) {} }",
    "mod private_nested {}",
    "extern \"C\" { pub fn ext_decl(x: u8) -> u8; }",
    "unsafe extern \"C\" { pub safe fn ext_safe(); }",
    "pub union U { a: u8, b: i8 }",
    "fn private_fn<D>(deps: &D) {}",
    "async fn private_async<D>(deps: &D) {}",
    "unsafe fn private_unsafe() {}",
    "pub fn bodyless_decl<D>(deps: &D);",
    "/// docs on a struct\n#[allow(dead_code)] struct Documented;",
    "#[cfg(any())] pub struct Disabled;",
    "pub(crate) use self::nested::in_nested as renamed;",
    "extern crate core as core_alias;",
    "pub macro decl_macro() {}",
    "impl<T> From<T> for Unit where T: Sized { fn from(_: T) -> Self { Unit } }",
    "const _: () = { pub fn hidden() {} };",
    "static CLOSURE: fn() = || { fn f() {} };",
    "struct Gen<const N: usize = { 1 + 1 }>;",
    "trait Alias2 = Clone + Send;",
    # a top-level `=` in the header of an item that ends with a brace group
    "fn private_iter() -> impl Iterator<Item = u32> { 0..1 }",
    "pub struct Page<T = u32> { pub t: T }",
    "pub enum Gen2<const K: usize = 2> { A }",
    "impl<I: Iterator<Item = u8>> From<I> for Tup { fn from(_: I) -> Self { Tup(0, 0) } }",
    "pub const fn const_private_like() {}" if False else "const fn private_const() {}",
]

IMPL_ITEMS_OTHER = [
    "const ASSOC: u8 = 1;",
    "type Assoc = u8;",
    "some_macro!();",
    "some_macro! { x }",
    "pub fn decl_only(deps: &impl Sized);",
    # body-less declarations with a brace-delimited const argument at the top level of the signature
    "pub fn decl_blk(deps: &impl Sized) -> ArrN<{ 2 * 2 }>;",
    "#[cfg(any())] fn decl_blk_where<D>(deps: &D) -> u8 where ArrN<{ 1 + 1 }>: Sized;",
    "#[allow(unused)] const DOC: () = { fn f() {} };",
]


def rich_fn(rng, name, vis=None, allow_const=True, min_stmts=0, deps=None, trait_method_safe=False):
    """Text of one fn (attributes included) for expansion-only use."""
    attrs = rng.sample(FN_ATTRS, rng.randint(0, 4))
    v = vis if vis is not None else rng.choice(VIS[:-1])
    q = rng.choice(QUALS)
    if not allow_const and "const" in q:
        q = q.replace("const", "").strip()
    g, d, w = deps or rng.choice(DEPS)
    ps = rng.sample(PARAMS, rng.randint(0, 5))
    if "const" in q:
        ps = [p for p in ps if "impl " not in p]
    trailing = rng.choice(["", ","]) if (ps or d) else ""
    ret = rng.choice(RETS)
    if "async" in q and ret == "-> impl Clone":
        ret = "-> u8"
    stmts = rng.sample(STMTS, rng.randint(min_stmts, 8))
    body = "{ " + " ".join(stmts) + " }"
    sig = "%s %s fn %s%s(%s%s) %s %s" % (v, q, name, g, ", ".join(([d] if d else []) + ps), trailing, ret, w)
    return "\n".join(attrs + [" ".join(sig.split()) + " " + body])


INNER_ATTRS = ["#![allow(dead_code)]", "//! inner module docs", "#![doc = \"inner\"]", "#![cfg_attr(all(), allow(unused))]", "#![allow(clippy::all, unused_variables)]"]


def rich_mod(rng, name, nfns=None):
    items = []
    n = nfns if nfns is not None else rng.randint(0, 4)
    for i in range(n):
        items.append(rich_fn(rng, "vis_fn_%d" % i, vis=rng.choice(VIS[1:-1]), allow_const=False,
                             deps=rng.choice([d for d in DEPS if "Concrete" not in d[1] and "(u8" not in d[1] and "[u8" not in d[1]])))
    others = rng.sample(MOD_ITEMS_OTHER, rng.randint(0, 10))
    items += others
    rng.shuffle(items)
    if rng.random() < 0.25:
        # the unit tests of the module, where they are usually written: last (sometimes first, sometimes both)
        where = rng.choice(["last", "last", "last", "first", "both"])
        if where in ("last", "both"):
            items.append(rng.choice(TEST_MODS))
        if where in ("first", "both"):
            items.insert(0, rng.choice(TEST_MODS).replace("mod tests", "mod tests_first"))
    if rng.random() < 0.15:
        # inner attributes: they open the module body, before the first item
        items = rng.sample(INNER_ATTRS, rng.randint(1, 2)) + items
    attrs = rng.sample(["/// module docs", "#[allow(dead_code)]", "#[cfg(all())]", "#[doc(hidden)]", "#[rustfmt::skip]"], rng.randint(0, 2))
    vis = rng.choice(["", "pub", "pub(crate)", "pub(super)"])
    return "\n".join(attrs + ["%s mod %s {" % (vis, name)] + ["    " + it.replace("\n", "\n    ") for it in items] + ["}"])


def rich_impl(rng, trait_path, ty):
    items = []
    for i in range(rng.randint(0, 4)):
        items.append(rich_fn(rng, "im_%d" % i, vis=rng.choice(["", "", "pub", "pub(crate)"]), allow_const=False,
                             deps=rng.choice([d for d in DEPS if "Concrete" not in d[1] and "(u8" not in d[1] and "[u8" not in d[1]])))
    items += rng.sample(IMPL_ITEMS_OTHER, rng.randint(0, 3))
    rng.shuffle(items)
    if rng.random() < 0.12:
        # inner attributes open the impl body
        items = rng.sample(INNER_ATTRS, rng.randint(1, 2)) + items
    attrs = rng.sample(["/// impl docs", "#[allow(dead_code)]", "#[cfg(all())]", "#[::async_trait::async_trait]",
                        "#[async_trait]", "#[async_trait(?Send)]", "#[mockall::automock]", "#[automock]", "#[::vattr::mark(on_impl)]",
                        "#[doc(hidden)]", "#[rustfmt::skip]"], rng.randint(0, 3))
    uns = rng.choice(["", "", "", "unsafe "])
    return "\n".join(attrs + ["%simpl %s for %s {" % (uns, trait_path, ty)] + ["    " + it.replace("\n", "\n    ") for it in items] + ["}"])
