"""Random fn / module cases (shared by C01, C03, C12, C16 ...): builds FnSpecs, the case
source with a differential driver, and the expected events."""
from .fns import FnSpec, Param, TYPES, SUPPORT, PLAIN_NAMES
from ..core import Case
import copy as copy_mod

APP_DEF = """#[derive(Clone, Copy, Debug)]
pub struct App { pub tag: u64, pub name: &'static str }
impl ::vrt::Tag for App { fn tag(&self) -> u64 { self.tag } }
impl ::vrt::HasName for App { fn name(&self) -> &str { self.name } }
"""

DEFAULT_PROFILE = dict(
    deps_kinds=["generic_ref"] * 5 + ["impl_ref"] * 3 + ["generic_val", "impl_val", "concrete_ref", "concrete_val", "no_deps", "no_deps"],
    max_arity=6,
    forms=["plain"] * 8 + ["mut", "ref", "refmut", "raw", "wild", "destr", "destr"],
    types=["i32", "i32", "i32", "u8", "bool", "str", "String", "tup", "N", "N2", "S", "opt", "arr", "refi", "mutref", "into", "dynref", "slice", "nest"],
    rets=["owned"] * 4 + ["unit", "borrow_deps", "borrow_arg", "generic"],
    p_async=0.3, p_unsafe=0.08, p_extern=0.05, p_generic_param=0.2, p_lifetimes=0.2, p_const=0.08,
    p_helpers=0.5, vis=["", "", "pub", "pub(crate)", "pub(super)"],
    p_same_type=0.6,
)


RAW_FN_NAMES = ["r#match", "r#type", "r#move", "r#return", "r#use"]


def pick_names(rng, n, taken):
    names = []
    pool = [x for x in PLAIN_NAMES if x not in taken]
    rng.shuffle(pool)
    for i in range(n):
        nm = pool.pop()
        names.append(nm)
        pool = [x for x in pool if x != nm]   # the pool is weighted (repeated entries)
    return names


def random_fn(rng, name, profile, helpers=(), in_module=False, forbid_names=()):
    P = dict(DEFAULT_PROFILE)
    P.update(profile or {})
    f = FnSpec(name)
    f.deps_kind = rng.choice(P["deps_kinds"])
    if in_module and f.deps_kind.startswith("concrete"):
        f.deps_kind = "generic_ref"
    if f.deps_kind.startswith("concrete"):
        f.concrete_ty = rng.choice(["App", "App", "self::App"])
    f.vis = rng.choice(P["vis"])
    if in_module and not f.vis:
        f.vis = "pub"
    f.is_async = rng.random() < P["p_async"]
    f.is_unsafe = rng.random() < P["p_unsafe"]
    f.extern_c = (not f.is_async) and rng.random() < P["p_extern"]
    f.deps_name = rng.choice(["deps", "deps", "deps", "_deps", "d_"])
    f.deps_param = rng.choice(["D", "D", "Deps", "Z"])
    taken = {name, f.deps_name, "deps", "_deps", "d_"} | set(forbid_names)
    # bounds on the deps
    bounds = []
    if f.deps_kind in ("generic_ref", "generic_val", "impl_ref", "impl_val"):
        if helpers and rng.random() < 0.8:
            k = rng.randint(1, len(helpers))
            for h in rng.sample(list(helpers), k):
                bounds.append(h)
    f.calls = []
    for h in bounds:
        # h: (trait_name, method_name, fn_id, is_async)
        if rng.random() < 0.8 and (f.is_async or not h[3]):
            f.calls.append((h[1], h[2], "%di32%s" % (rng.randint(1, 9), h[4] if len(h) > 4 else ""), h[3]))
    f.bounds = [h[0] for h in bounds]
    if f.deps_kind in ("generic_ref", "impl_ref") and rng.random() < P.get("p_relaxed_deps", 0.08):
        # a relaxed bound on the dependency: legal on the fn, never a requirement of the generated impl
        f.bounds.insert(rng.randint(0, len(f.bounds)), "?::core::marker::Sized")
    f.bound_place = rng.choice(["inline", "where", "split"])
    if f.by_value():
        f.bounds.append("::vrt::Tag")
        if f.calls or True:
            f.bounds.append("::core::marker::Copy")
    # params
    arity = rng.randint(0, P["max_arity"])
    last_ty = None
    for i in range(arity):
        if last_ty is not None and rng.random() < P["p_same_type"]:
            tkey = last_ty
        else:
            tkey = rng.choice(P["types"])
        ty = TYPES[tkey]
        form = rng.choice(P["forms"])
        if form == "destr" and not ty.pats:
            form = "plain"
        if f.extern_c and tkey in ("tup", "str", "String", "opt"):
            pass  # only lints
        if form == "destr":
            pi = rng.randrange(len(ty.pats))
            nb = ty.pats[pi][1]
            names = pick_names(rng, nb, taken)
            taken |= set(names)
            p = Param(ty, "destr", names, pi)
        elif form == "wild":
            p = Param(ty, "wild", [])
        else:
            names = pick_names(rng, 1, taken)
            taken |= set(names)
            if form == "raw":
                names = [rng.choice(["match", "type", "loop"]) if rng.random() < 0.5 and not ({"match", "type", "loop"} & taken) else names[0]]
                taken |= set(names)
            if form in ("ref", "refmut") and tkey == "mutref":
                form = "plain"
            if form in ("ref", "refmut") and tkey == "into":
                form = "mut"   # a `ref` binding of an anonymous `impl .. + Send` type held across an await would need `Sync`
            p = Param(ty, form, names)
        f.params.append(p)
        last_ty = tkey
    # generics
    if rng.random() < P["p_generic_param"]:
        tn = rng.choice(["T", "U"])
        bnds = ["::core::fmt::Debug"]
        if rng.random() < 0.5:
            bnds.append("::core::clone::Clone")
        if f.is_async:
            # rustc's rule, not entrait's: a future capturing a `T` is only `Send` if `T` is
            bnds.append("::core::marker::Send")
        place = rng.choice(["inline", "where"])
        f.type_params.append((tn, bnds, place))
        names = pick_names(rng, 1, taken)
        taken |= set(names)
        gp = Param(TYPES["i32"], "plain", names, generic=tn)
        f.params.insert(rng.randint(0, len(f.params)), gp)
        f.deps_last = rng.random() < 0.3
    if rng.random() < P["p_const"] and not f.is_async:
        f.const_params.append(("K", "usize"))
        f.const_first = rng.random() < 0.4
        names = pick_names(rng, 1, taken)
        taken |= set(names)
        cp = Param(TYPES["arr"], "plain", names, generic="[u8; K]")
        f.params.append(cp)
    # return
    ret = rng.choice(P["rets"])
    if ret == "generic" and not f.type_params:
        ret = "owned"
    if ret == "borrow_deps" and f.deps_kind not in ("generic_ref", "impl_ref", "concrete_ref"):
        ret = "owned"
    if ret == "borrow_deps" and f.deps_name == "_":
        ret = "owned"
    if ret == "borrow_arg":
        # needs a plain &str parameter
        cands = [p for p in f.params if p.ty.key == "str" and p.form == "plain" and not p.generic]
        if not cands:
            names = pick_names(rng, 1, taken)
            taken |= set(names)
            sp = Param(TYPES["str"], "plain", names)
            f.params.append(sp)
            cands = [sp]
        src = cands[0]
        f.ret_expr = src.names[0]
        # lifetimes are needed whenever more than one reference input exists
        f.lifetimes.append(("'b", []))
        src.generic = "&'b str"
        f.ret_lifetime = "'b"
        if f.deps_kind in ("generic_ref", "impl_ref", "concrete_ref") and rng.random() < P.get("p_lt_relation", 0.0):
            # return the argument with the lifetime of the deps: needs 'b: 'a
            how = rng.choice(["inline", "where"])
            f.lifetimes = [("'a", []), ("'b", ["'a"] if how == "inline" else [])]
            if how == "where":
                f.where_extra.append("'b: 'a")
            f.deps_lifetime = "'a"
            f.ret_lifetime = "'a"
    if ret == "borrow_deps":
        f.bounds.append("::vrt::HasName") if f.deps_kind != "concrete_ref" else None
        other_refs = any((p.ty.key in ("str", "refi", "mutref", "dynref", "slice")) for p in f.params)
        if other_refs or rng.random() < 0.5:
            f.lifetimes.insert(0, ("'a", []))
            f.deps_lifetime = "'a"
            f.ret_lifetime = "'a"
    if ret == "generic":
        gp = [p for p in f.params if p.generic == f.type_params[0][0]][0]
        f.ret_generic = f.type_params[0][0]
        f.ret_expr = gp.names[0]
        if gp.form != "plain":
            gp.form = "plain"
    f.ret = ret
    if f.deps_kind == "no_deps" and ret in ("borrow_deps",):
        f.ret = "owned"
    if rng.random() < P["p_lifetimes"] and not f.lifetimes and f.deps_kind in ("generic_ref", "impl_ref", "concrete_ref"):
        f.lifetimes.append(("'x", []))
        f.deps_lifetime = "'x"
        if f.ret == "borrow_deps":
            f.ret_lifetime = "'x"
        if rng.random() < 0.6 and not f.extern_c and P.get("allow_sink", True):
            # the named lifetime of the dependency is relied upon without appearing in the return type: something borrowed
            # from the deps is pushed into a `&mut Vec<&'x str>` (invariant in 'x)
            names = pick_names(rng, 1, taken)
            taken |= set(names)
            f.params.append(Param(TYPES["sink"], "plain", names, generic="&mut ::std::vec::Vec<&'x str>"))
            if f.deps_kind != "concrete_ref" and "::vrt::HasName" not in f.bounds:
                f.bounds.append("::vrt::HasName")
            f.body_extra = ((f.body_extra + " ") if f.body_extra else "") + "%s.push(::vrt::HasName::name(%s));" % (names[0], f.deps_name)
    if f.deps_kind.startswith("impl") and not f.bounds:
        f.bounds = []
    if rng.random() < 0.25 and name.isidentifier() and not name.startswith("r#"):
        # a destructuring pattern whose single binding is spelled like the fn itself (legal: the fn is not recursive)
        one = [p_ for p_ in f.params if p_.form == "destr" and len(p_.names) == 1]
        if one and all(name not in p_.names for p_ in f.params):
            one[0].names = [name]
    return f


def expected_tn(f, app_is_impl=True):
    if not f.has_deps() or f.deps_name == "_":
        return ""
    return None


class FnCaseBuilder:
    """Builds a case (module source + meta) around 1 single fn or a module of fns, with helper
    leaf functions that serve as dependency bounds, and a differential driver."""

    def __init__(self, cid, rng, profile=None, mode=None, options=None, macro="entrait", unimock_feature=False):
        self.cid = cid
        self.rng = rng
        self.profile = profile or {}
        self.mode = mode or rng.choice(["fn", "fn", "mod"])
        self.options = options if options is not None else []
        self.macro = macro
        self.unimock_feature = unimock_feature
        self.lines = []
        self.meta = {"mode": self.mode, "fns": [], "calls": [], "options": self.options, "macro": macro}
        self.need = set()

    def helper_fns(self):
        """Leaf functions h0..hk (each its own trait) usable as bounds of the subject."""
        rng = self.rng
        helpers = []
        n = rng.randint(1, 3) if rng.random() < DEFAULT_PROFILE["p_helpers"] else 0
        # different dependency traits whose paths end in the same identifier (`hm0::H + hm1::H`)
        same_named = n >= 2 and rng.random() < 0.3
        for i in range(n):
            is_async = rng.random() < 0.3
            tname = "H%d" % i
            fname = "h%d" % i
            fid = "%s::%s" % (self.cid, fname)
            body = '::vrt::enter("%s", ::vrt::tn(deps), ::vrt::addr(deps), &[&x as &dyn ::core::fmt::Debug]); x + %d' % (fid, i)
            if same_named:
                # hand-implemented leaf traits (no blanket impl): `Impl<App>: hmK::H` holds only through the delegation
                # to `App`, so a bound lost from the generated impl cannot be satisfied by accident
                tname = "hm%d::H" % i
                is_async = False
                self.lines.append("pub mod hm%d { #[::entrait::entrait_export(mock_api = HMock)] pub trait H { fn %s(&self, x: i32) -> i32; } }" % (i, fname))
                self.lines.append('impl hm%d::H for App { fn %s(&self, x: i32) -> i32 { ::vrt::enter("%s", "", ::vrt::addr(self), &[&x as &dyn ::core::fmt::Debug]); x + %d } }' % (
                    i, fname, fid, i))
            else:
                self.lines.append("#[::entrait::entrait(pub %s)]" % tname)
                self.lines.append("%sfn %s<D>(deps: &D, x: i32) -> i32 { %s }" % ("async " if is_async else "", fname, body))
            helpers.append((tname, fname, fid, is_async))
        mocked = any(o.replace(" ", "").startswith(("mock_api", "mockall")) and "false" not in o for o in self.options)
        if n >= 1 and not mocked and rng.random() < 0.25:
            # one generic leaf trait required at two different instantiations (`Gt<u8> + Gt<i64>`: same path, different arguments),
            # implemented for the application type of this case only
            self.lines.append("pub trait Gt<X> { fn gt(&self, x: i32, tag: X) -> i32; }")
            for ty in ("u8", "i64"):
                fid = "%s::gt_%s" % (self.cid, ty)
                self.lines.append('impl Gt<%s> for ::entrait::Impl<App> { fn gt(&self, x: i32, tag: %s) -> i32 { ::vrt::enter("%s", "", ::vrt::addr(self), &[&x as &dyn ::core::fmt::Debug]); x } }' % (ty, ty, fid))
                helpers.append(("Gt<%s>" % ty, "gt", fid, False, ", 0%s" % ty))
        return helpers

    def attr_line(self, trait_vis, trait_name, opts, no_deps):
        o = list(opts)
        if no_deps:
            o = [x for x in o if x.replace(" ", "") != "no_deps=false"]
        if no_deps and not any(x.startswith("no_deps") for x in o):
            o.insert(self.rng.randint(0, len(o)), self.rng.choice(["no_deps", "no_deps = true"]))
        args = ", ".join([("%s %s" % (trait_vis, trait_name)).strip()] + o)
        return "#[::entrait::%s(%s)] /*@inv*/" % (self.macro, args)

    def build(self, nfns=None):
        rng = self.rng
        helpers = self.helper_fns()
        trait_name = rng.choice(["Subject", "Foo", "DoThing", "Q"])
        trait_vis = rng.choice(["", "pub", "pub(crate)"])
        fns = []
        if self.mode == "fn":
            raw_ok = (self.profile or {}).get("allow_raw_fn_names", True)
            f = random_fn(rng, rng.choice(["foo", "subject", "compute", "foo", "subject", "compute"] + (RAW_FN_NAMES if raw_ok else [])),
                          self.profile, helpers)
            f.fn_id = "%s::%s" % (self.cid, f.name)
            fns = [f]
            self.lines.append(self.attr_line(trait_vis, trait_name, self.options, f.deps_kind == "no_deps"))
            self.lines.append(f.source(""))
            prefix = ""
        else:
            n = nfns or rng.randint(1, 5)
            same_sig = rng.random() < 0.5 and n >= 2
            all_nodeps = False
            template = None
            raw_pool = list(RAW_FN_NAMES) if (self.profile or {}).get("allow_raw_fn_names", True) else []
            rng.shuffle(raw_pool)
            for i in range(n):
                name = "m%d" % i
                if raw_pool and rng.random() < 0.12:
                    name = raw_pool.pop()   # a keyword as fn name, written as a raw identifier
                if same_sig and template is not None:
                    import copy
                    f = copy.deepcopy(template)
                    f.name = name
                else:
                    prof = dict(self.profile)
                    dk = [k for k in (prof.get("deps_kinds") or DEFAULT_PROFILE["deps_kinds"]) if not k.startswith("concrete") and k != "no_deps"]
                    prof["deps_kinds"] = dk
                    f = random_fn(rng, name, prof, helpers, in_module=True)
                    template = copy_mod.deepcopy(f)
                # K2: module fns must not share a generic parameter name
                if f.type_params:
                    old = f.type_params[0][0]
                    new = "%s%d" % (old.rstrip("0123456789"), i)
                    f.type_params[0] = (new,) + tuple(f.type_params[0][1:])
                    for p in f.params:
                        if p.generic == old:
                            p.generic = new
                    if f.ret == "generic":
                        f.ret_generic = new
                if f.const_params:
                    oldk = f.const_params[0][0]
                    f.const_params = [("K%d" % i, "usize")]
                    for p in f.params:
                        if p.generic == "[u8; %s]" % oldk:
                            p.generic = "[u8; K%d]" % i
                f.fn_id = "%s::%s" % (self.cid, f.name)
                fns.append(f)
            self.lines.append(self.attr_line(trait_vis, trait_name, self.options, False))
            self.lines.append("%smod subject_mod {" % rng.choice(["", "pub ", "pub(crate) "]))
            self.lines.append("    use super::*;")
            # private helper inside the module, must not become a method
            self.lines.append("    fn private_helper() -> i32 { 1 }")
            for f in fns:
                self.lines.append(f.source("    "))
            self.lines.append("}")
            prefix = "subject_mod::"
        self.fns = fns
        self.trait_name = trait_name
        self.prefix = prefix
        self.helpers = helpers
        return self

    def build_from(self, fns, trait_name="Subject", trait_vis="", helpers=False):
        """Case around explicitly given FnSpecs (mode fn: exactly one; mode mod: all in one module)."""
        self.helpers = self.helper_fns() if helpers else []
        for f in fns:
            f.fn_id = "%s::%s" % (self.cid, f.name)
        if self.mode == "fn":
            assert len(fns) == 1
            self.lines.append(self.attr_line(trait_vis, trait_name, self.options, fns[0].deps_kind == "no_deps"))
            self.lines.append(fns[0].source(""))
            self.prefix = ""
        else:
            self.lines.append(self.attr_line(trait_vis, trait_name, self.options, False))
            self.lines.append("pub mod subject_mod {")
            self.lines.append("    use super::*;")
            for f in fns:
                if not f.vis:
                    f.vis = "pub"
                self.lines.append(f.source("    "))
            self.lines.append("}")
            self.prefix = "subject_mod::"
        self.fns = fns
        self.trait_name = trait_name
        return self

    def support(self):
        need = set()
        for f in self.fns:
            for p in f.params:
                need |= set(p.ty.needs)
        return [SUPPORT[n] for n in sorted(need)]

    def driver(self, witness=True):
        """Differential driver: direct call vs trait method call on the same app."""
        rng = self.rng
        L = []
        L.append("pub fn run() {")
        L.append('    let app = ::entrait::Impl::new(App { tag: %d, name: "nm_%s" });' % (rng.randint(1, 1 << 30), self.cid))
        L.append('    let plain = App { tag: %d, name: "pl_%s" };' % (rng.randint(1, 1 << 30), self.cid))
        L.append('    ::vrt::fact("app_addr", ::vrt::addr(&app)); ::vrt::fact("app_tn", ::vrt::tn(&app)); ::vrt::fact("app_tag", ::vrt::Tag::tag(&app));')
        L.append('    ::vrt::fact("plain_addr", ::vrt::addr(&plain)); ::vrt::fact("plain_tn", ::vrt::tn(&plain)); ::vrt::fact("plain_tag", ::vrt::Tag::tag(&plain));')
        base = 1
        calls = []
        # generic arguments of the generated trait: per fn, its type params then const params
        self.trait_generic_args = []
        for f in self.fns:
            tps = [tp[0] for tp in f.type_params]
            ta, ca = ["i32" for _ in tps], ["2" for _ in f.const_params]
            self.trait_generic_args += (ca + ta) if getattr(f, "const_first", False) else (ta + ca)
        for fi, f in enumerate(self.fns):
            recv_sets = [("app", "impl")]
            if f.deps_kind.startswith("concrete"):
                recv_sets = [("plain", "plain"), ("app", "impl")]
            for recv, rk in recv_sets:
                u = "%d%s" % (fi, rk[0])
                s1, e1, d1 = f.call_args(base, u + "d")
                s2, e2, d2 = f.call_args(base, u + "t")
                base += len(f.params) + 1
                fpath = self.prefix + f.name
                # direct
                if f.deps_kind == "no_deps":
                    dargs = e1
                elif f.by_value() and f.deps_kind.startswith("concrete") and rk == "impl":
                    dargs = ["*" + recv] + e1
                elif f.by_value():
                    dargs = [recv] + e1
                elif f.deps_kind.startswith("concrete") and rk == "impl":
                    dargs = ["&*" + recv] + e1
                else:
                    dargs = ["&" + recv] + e1
                targs = e2
                lab = "f%d_%s" % (fi, rk)
                L.append('    ::vrt::phase("direct:%s");' % lab)
                L += ["    " + s for s in s1]
                L.append("    let r = %s; ::vrt::result(&r); ::vrt::kv(\"rtn\", ::vrt::tn(&r)); ::vrt::record_polls();" % f.wrap_call("%s(%s)" % (fpath, ", ".join(dargs))))
                L.append('    ::vrt::phase("trait:%s");' % lab)
                L += ["    " + s for s in s2]
                if self.trait_generic_args and self.mode == "mod":
                    rexpr = recv if f.by_value() else "&" + recv
                    tcall = "<::entrait::Impl<App> as %s<%s>>::%s(%s)" % (self.trait_name, ", ".join(self.trait_generic_args), f.name, ", ".join([rexpr] + targs))
                else:
                    tcall = "%s.%s(%s)" % (recv, f.name, ", ".join(targs))
                L.append("    let r = %s; ::vrt::result(&r); ::vrt::kv(\"rtn\", ::vrt::tn(&r)); ::vrt::record_polls();" % f.wrap_call(tcall))
                calls.append({"label": lab, "fn": f.fn_id, "recv": rk, "args": d1, "deps_kind": f.deps_kind,
                              "deps_usable": f.has_deps() and f.deps_name != "_", "async": f.is_async,
                              "nested": [c[1] for c in f.calls]})
        L.append("}")
        self.meta["calls"] = calls
        self.meta["fns"] = [{"name": f.name, "id": f.fn_id, "deps_kind": f.deps_kind, "arity": len(f.params),
                             "async": f.is_async, "unsafe": f.is_unsafe, "extern": f.extern_c,
                             "forms": [p.form for p in f.params], "types": [p.type_text() for p in f.params],
                             "ret": f.ret, "sig": f.sig_text()} for f in self.fns]
        return L

    def witness(self):
        """Never-called generic fns coercing the fn and the trait method to one fn-pointer type."""
        L = []
        targs = getattr(self, "trait_generic_args", [])
        tg = ("<" + ", ".join(targs) + ">") if targs else ""
        for fi, f in enumerate(self.fns):
            if f.is_async:
                continue
            apps = ["::entrait::Impl<App>"]
            if f.deps_kind.startswith("concrete"):
                apps = ["App", "::entrait::Impl<App>"]
            for ai, app in enumerate(apps):
                fn_app = "App" if f.deps_kind.startswith("concrete") else app
                L.append("#[allow(unused)] fn __witness_%d_%d%s() {" % (fi, ai, f.witness_generics()))
                L.append("    let _: %s = %s%s; /*@wfn%d*/" % (f.ptr_type(fn_app, False), self.prefix, f.name, fi))
                L.append("    let _: %s = <%s as %s%s>::%s; /*@wtr%d*/" % (f.ptr_type(app if f.deps_kind != "no_deps" else app, True), app, self.trait_name, tg, f.name, fi))
                L.append("}")
        return L

    def case(self, tags=(), witness=False):
        drv = self.driver()
        src = ["#![allow(warnings)]" if False else "", APP_DEF] + self.support() + self.lines + (self.witness() if witness else []) + drv
        nontrivial = False
        for f in self.fns:
            tys = [p.type_text() for p in f.params]
            if any(tys[i] == tys[i + 1] for i in range(len(tys) - 1)):
                nontrivial = True
            if f.by_value() or f.is_async:
                nontrivial = True
        if self.mode == "mod" and len(self.fns) >= 2:
            sigs = [f.sig_text().replace(f.name, "") for f in self.fns]
            if len(set(sigs)) < len(sigs):
                nontrivial = True
        self.meta["nontrivial"] = nontrivial
        return Case(self.cid, "\n".join(src) + "\n", meta=self.meta, tags=tags)


def macro_case(cid, rng):
    """An entraited fn stamped out by a `macro_rules!` macro: some identifiers (trait name, fn name, deps name,
    some parameter names) come from the invocation, the others are written in the macro body, so they live in
    different hygiene contexts - including parameters with the same spelling that are nevertheless distinct."""
    n = rng.randint(2, 5)
    pool = ["a", "b", "inner"]
    origins = [rng.choice(["caller", "macro"]) for _ in range(n)]
    if "macro" not in origins:
        origins[rng.randrange(n)] = "macro"
    if "caller" not in origins:
        origins[rng.randrange(n)] = "caller"
    names = []
    used = {"caller": set(), "macro": set()}
    for o in origins:
        cands = [x for x in pool + ["c", "d", "e"] if x not in used[o]]
        nm = rng.choice(cands[:3])
        used[o].add(nm)
        names.append(nm)
    trait_from = rng.choice(["caller", "macro"])
    fn_from = rng.choice(["caller", "caller", "macro"])
    deps_from = rng.choice(["caller", "macro"])
    is_async = rng.random() < 0.3
    # macro matcher / transcriber
    matcher, call_args = [], []
    def frag(origin, name, var):
        if origin == "caller":
            matcher.append("$%s:ident" % var)
            call_args.append(name)
            return "$" + var
        return name
    tr = frag(trait_from, "Subj", "tr")
    fn = frag(fn_from, "subj", "f")
    dp = frag(deps_from, "deps", "dp")
    ps = [frag(o, nm, "p%d" % i) for i, (o, nm) in enumerate(zip(origins, names))]
    fid = "%s::subj" % cid
    logs = ", ".join("&%s as &dyn ::core::fmt::Debug" % x for x in ps)
    fmt = fid + "".join("|{:?}" for _ in ps)
    body = '::vrt::enter("%s", ::vrt::tn(%s), ::vrt::addr(%s), &[%s]); %s::std::format!("%s"%s)' % (
        fid, dp, dp, logs, "::vrt::yield_once().await; " if is_async else "", fmt, "".join(", " + x for x in ps))
    L = [APP_DEF,
         "macro_rules! make_subject {",
         "    (%s) => {" % ", ".join(matcher),
         "        #[::entrait::entrait(pub %s)] /*@inv*/" % tr,
         "        pub %sfn %s<D>(%s: &D, %s) -> ::std::string::String { %s }" % ("async " if is_async else "", fn, dp, ", ".join("%s: i32" % x for x in ps), body),
         "    };",
         "}",
         "make_subject!(%s);" % ", ".join(call_args)]
    vals = ["%di32" % (101 + i) for i in range(n)]
    wrap = (lambda c: "::vrt::block_on(%s)" % c) if is_async else (lambda c: c)
    D = ["pub fn run() {",
         '    let app = ::entrait::Impl::new(App { tag: 5, name: "nm_%s" });' % cid,
         '    let plain = App { tag: 6, name: "pl" };',
         '    ::vrt::fact("app_addr", ::vrt::addr(&app)); ::vrt::fact("app_tn", ::vrt::tn(&app)); ::vrt::fact("app_tag", ::vrt::Tag::tag(&app));',
         '    ::vrt::fact("plain_addr", ::vrt::addr(&plain)); ::vrt::fact("plain_tn", ::vrt::tn(&plain)); ::vrt::fact("plain_tag", ::vrt::Tag::tag(&plain));',
         '    ::vrt::phase("direct:f0_impl");',
         '    let r = %s; ::vrt::result(&r); ::vrt::kv("rtn", ::vrt::tn(&r)); ::vrt::record_polls();' % wrap("subj(&app, %s)" % ", ".join(vals)),
         '    ::vrt::phase("trait:f0_impl");',
         '    let r = %s; ::vrt::result(&r); ::vrt::kv("rtn", ::vrt::tn(&r)); ::vrt::record_polls();' % wrap("app.subj(%s)" % ", ".join(vals)),
         "}"]
    meta = {"mode": "macro_rules", "options": [], "macro": "entrait", "nontrivial": True,
            "calls": [{"label": "f0_impl", "fn": fid, "recv": "impl", "args": [str(101 + i) for i in range(n)], "deps_kind": "generic_ref",
                       "deps_usable": True, "async": is_async, "nested": []}],
            "fns": [{"name": "subj", "id": fid, "deps_kind": "generic_ref", "arity": n, "async": is_async, "unsafe": False, "extern": False,
                     "forms": ["hygiene:" + o for o in origins], "types": ["i32"] * n, "ret": "owned",
                     "sig": "macro_rules fn subj(%s) names=%s origins=%s trait:%s fn:%s deps:%s" % (n, names, origins, trait_from, fn_from, deps_from)}]}
    return Case(cid, "\n".join(L + D) + "\n", meta=meta)
