"""Generator of entraited trait definitions (leaf delegation Self/ref/Borrow, dependency inversion
static/dynamic with impl blocks), their providers, drivers and ground truth."""
from .fns import Param, TYPES, SUPPORT, PLAIN_NAMES
from ..core import Case

TRAIT_ATTRS = ["/// trait level docs", "#[allow(dead_code)]", "#[allow(clippy::all)]", "#[cfg(all())]", "#[doc(hidden)]",
               "#[deprecated]" if False else "#[allow(unused_variables)]"]
METHOD_ATTRS = ["/// method docs", "#[allow(unused)]", "#[cfg(all())]", "#[must_use]", "#[doc(hidden)]"]

PARAM_TYPES = ["i32", "i32", "u8", "bool", "str", "String", "tup", "N", "opt", "arr", "refi", "mutref", "dynref", "slice"]


class MethodSpec:
    def __init__(self, name):
        self.name = name
        self.attrs = []
        self.is_async = False
        self.params = []          # Param (plain / wild)
        self.ret = "owned"        # unit | owned | borrow_self | borrow_arg | generic | trait_generic
        self.mgenerics = []       # [(name, bounds)] method-level type params
        self.lifetimes = []       # method-level lifetimes
        self.ret_expr = None
        self.self_lt = None
        self.nested = []          # (impl blocks) nested dependency calls: (method, fn_id, arg, is_async)
        self.pre = ""             # extra statements at the start of an implementation body
        self.typed_recv = False   # write the receiver as `self: &Self` / `self: &'a Self`
        self.recv_mut = False     # `&mut self` (set by C07 for statically delegated traits only)
        self.mconst = None        # None | "before" | "after": a method-level const parameter KM declared before / after the type parameters
        self.extra_tparam = False # a method type parameter `U: 'static` that no argument mentions (callers need a turbofish)
        self.mwhere = ""          # a where clause of the method itself (" where ..")

    def generics_text(self, extra_first=None):
        items = list(self.lifetimes)
        if extra_first:
            items += extra_first
        if self.mconst == "before":
            items.append("const KM: usize")
        items += ["%s%s" % (n, (": " + " + ".join(b)) if b else "") for n, b in self.mgenerics]
        if self.extra_tparam:
            items.append("U: 'static")
        if self.mconst == "after":
            items.append("const KM: usize")
        return ("<" + ", ".join(items) + ">") if items else ""

    def cname(self):
        """The method name as a caller has to write it (turbofish when a type parameter cannot be inferred)."""
        if self.extra_tparam:
            return "%s::<%s>" % (self.name, ", ".join(["_"] * len(self.mgenerics) + ["u8"]))
        return self.name

    def ret_text(self):
        if self.ret == "unit":
            return ""
        if self.ret == "owned":
            return " -> ::std::string::String"
        if self.ret == "borrow_self":
            return " -> &%sstr" % ((self.self_lt + " ") if self.self_lt else "")
        if self.ret == "borrow_arg":
            return " -> &'b str"
        if self.ret == "generic":
            return " -> " + self.mgenerics[0][0]
        if self.ret == "trait_generic":
            return " -> G"
        raise ValueError(self.ret)

    def trait_sig(self):
        recv = "&%s%sself" % ((self.self_lt + " ") if self.self_lt else "", "mut " if self.recv_mut else "")
        if self.typed_recv and self.recv_mut:
            recv = "self: &%smut Self" % ((self.self_lt + " ") if self.self_lt else "")
        elif self.typed_recv:
            recv = "self: &%sSelf" % ((self.self_lt + " ") if self.self_lt else "")
        ps = [recv] + [p.decl() for p in self.params]
        return "%s%sfn %s%s(%s)%s%s" % ("async " if self.is_async else "", "unsafe " if getattr(self, "unsafe_fn", False) else "", self.name, self.generics_text(), ", ".join(ps), self.ret_text(), self.mwhere)

    def logged(self):
        out = []
        for p in self.params:
            out += p.bindings()
        return out

    def body(self, fn_id, recv_expr, by_ref=True, name_expr=None):
        """Body statements of an implementation of this method (provider or impl-block fn)."""
        logs = ", ".join("&%s as &dyn ::core::fmt::Debug" % n for n in self.logged())
        b = ['::vrt::enter("%s", ::vrt::tn(%s), ::vrt::addr(%s), &[%s]);' % (fn_id, recv_expr, recv_expr, logs)]
        if self.is_async:
            b.append("::vrt::yield_once().await;")
        if self.pre:
            b.append(self.pre)
        for meth, _fid, arg, is_async in self.nested:
            b.append("let _ = %s.%s(%s)%s;" % (recv_expr, meth, arg, ".await" if is_async else ""))
        if self.ret == "owned":
            fmt = fn_id + "".join("|{:?}" for _ in self.logged())
            b.append('::std::format!("%s"%s)' % (fmt, "".join(", " + n for n in self.logged())))
        elif self.ret == "borrow_self":
            b.append(name_expr or '"static_name"')
        elif self.ret in ("borrow_arg", "generic", "trait_generic"):
            b.append(self.ret_expr)
        return "{ " + " ".join(b) + " }"

    def call_args(self, base, uniq):
        setups, exprs, dbg = [], [], []
        for i, p in enumerate(self.params):
            s, e, d = p.value(base + i, "%s_%d" % (uniq, i))
            if s:
                setups.append(s)
            exprs.append(e)
            dbg += d
        return setups, exprs, dbg


def random_method(rng, name, allow_async=True, allow_generic=True, dyn_safe=False, trait_generic=False, max_arity=4, uninferable=False):
    m = MethodSpec(name)
    if uninferable and allow_generic and not dyn_safe and rng.random() < 0.12:
        m.extra_tparam = True
    m.is_async = allow_async and rng.random() < 0.4
    taken = {name}
    last = None
    for i in range(rng.randint(0, max_arity)):
        tkey = last if (last and rng.random() < 0.6) else rng.choice(PARAM_TYPES)
        pool = [x for x in PLAIN_NAMES if x not in taken]
        nm = rng.choice(pool)
        taken.add(nm)
        form = "wild" if rng.random() < 0.1 else "plain"
        m.params.append(Param(TYPES[tkey], form, [nm] if form == "plain" else []))
        last = tkey
    if allow_generic and not dyn_safe and (m.extra_tparam and rng.random() < 0.6 or rng.random() < 0.06):
        # an argument-position `impl Trait` (an anonymous type parameter of the method), also next to a named parameter that
        # no argument determines
        nm = rng.choice([x for x in PLAIN_NAMES if x not in taken])
        taken.add(nm)
        m.params.insert(rng.randint(0, len(m.params)), Param(TYPES["into"], "plain", [nm]))
    m.attrs = rng.sample(METHOD_ATTRS, rng.randint(0, 2)) if rng.random() < 0.4 else []
    if rng.random() < 0.12:
        # a where clause on the method itself (it belongs to the method's signature: kept, also when an async method is rewritten)
        m.mwhere = " where i32: ::core::marker::Copy" if dyn_safe else rng.choice(
            [" where Self: 'static", " where i32: ::core::marker::Copy", " where Self: ::core::marker::Sized", " where Self: ::core::marker::Sized + 'static, u8: ::core::marker::Copy"])
    if rng.random() < 0.1:
        m.attrs = ["/// A.", "///", "/// B.", "///", "#[allow(unused)]", "#[allow(unused)]"] + m.attrs
    m.typed_recv = rng.random() < 0.12
    rets = ["owned", "owned", "unit", "borrow_self", "borrow_arg"]
    if allow_generic and not dyn_safe:
        rets.append("generic")
    if trait_generic:
        rets += ["trait_generic", "trait_generic"]
    m.ret = rng.choice(rets)
    if m.ret == "borrow_arg":
        nm = rng.choice([x for x in PLAIN_NAMES if x not in taken])
        taken.add(nm)
        p = Param(TYPES["str"], "plain", [nm], generic="&'b str")
        m.params.append(p)
        m.lifetimes.append("'b")
        m.ret_expr = nm
    if m.ret == "borrow_self":
        if any(p.ty.key in ("str", "refi", "mutref", "dynref", "slice") for p in m.params) or rng.random() < 0.4:
            m.lifetimes.insert(0, "'a")
            m.self_lt = "'a"
            m.typed_recv = m.typed_recv or rng.random() < 0.4   # `self: &'a Self`
    if m.ret == "generic":
        bounds = ["::core::fmt::Debug"] + (["::core::marker::Send"] if m.is_async else [])
        m.mgenerics.append(("M", bounds))
        if not m.extra_tparam and rng.random() < 0.35:
            m.mconst = rng.choice(["before", "before", "after"])
            nm = rng.choice([x for x in PLAIN_NAMES if x not in taken])
            taken.add(nm)
            m.params.append(Param(TYPES["arr"], "plain", [nm], generic="[u8; KM]"))
        nm = rng.choice([x for x in PLAIN_NAMES if x not in taken])
        taken.add(nm)
        m.params.append(Param(TYPES["i32"], "plain", [nm], generic="M"))
        m.ret_expr = nm
    if m.ret == "trait_generic":
        nm = rng.choice([x for x in PLAIN_NAMES if x not in taken])
        taken.add(nm)
        m.params.append(Param(TYPES["i32"], "plain", [nm], generic="G"))
        m.ret_expr = nm
    return m


class TraitSpec:
    def __init__(self, name="Tr"):
        self.name = name
        self.vis = ""
        self.attrs = []
        self.is_unsafe = False
        self.generic = False          # trait Tr<G: Clone + Debug>
        self.const_pos = None         # None | "before" | "after": a const generic parameter N before / after G (or alone)
        self.lt_param = False         # a lifetime parameter `'t` on the trait
        self.defaults = False         # `G: .. = i32`, `const KN: usize = 3`
        self.supers = []
        self.trailing_plus = False    # `trait Tr: A + B + {` (legal; what `$($sup +)*` in a macro_rules body produces)
        self.where = []
        self.ghosts = []      # (position, text) of methods that are configured out in every build
        self.inner_attrs = [] # inner attributes / inner doc comments at the start of the trait body
        self.methods = []
        self.async_trait = None       # attribute text or None
        self.extra_items = []         # raw item texts (assoc types, default methods) for pinned cases

    def generics_text(self):
        g = "G: ::core::clone::Clone + ::core::fmt::Debug + ::core::marker::Send + ::core::marker::Sync + 'static" if self.generic else None
        c = "const KN: usize" if self.const_pos else None
        if self.defaults:
            g = (g + " = i32") if g else None
            c = (c + " = 3") if c else None
        items = (["'t", "'u: 't"] if self.lt_param else []) + [x for x in ([c, g] if self.const_pos == "before" else [g, c]) if x]
        return ("<" + ", ".join(items) + ">") if items else ""

    def args_text(self):
        g = "i32" if self.generic else None
        c = "3" if self.const_pos else None
        items = (["'static", "'static"] if self.lt_param else []) + [x for x in ([c, g] if self.const_pos == "before" else [g, c]) if x]
        return ("<" + ", ".join(items) + ">") if items else ""

    def source(self):
        L = list(self.attrs)
        if self.async_trait:
            L.append(self.async_trait)
        head = "%s%strait %s%s%s%s {" % ((self.vis + " ") if self.vis else "", "unsafe " if self.is_unsafe else "", self.name,
                                        self.generics_text(), (": " + " + ".join(self.supers) + (" +" if self.trailing_plus else "")) if self.supers else "",
                                        (" where " + ", ".join(self.where)) if self.where else "")
        L.append(head)
        L += ["    " + a for a in self.inner_attrs]
        for i, m in enumerate(self.methods):
            L += ["    " + g for pos, g in self.ghosts if pos == i]
            for a in m.attrs:
                L.append("    " + a)
            # (a provided method: entrait re-emits it without its body - K1a - so every provider implements it anyway; what
            # `Impl<T>` runs must be the provider's method, never this body)
            L.append("    " + m.trait_sig() + (" { ::core::panic!(\"the default body of %s ran\") }" % m.name if getattr(m, "provided", False) else ";"))
        L += ["    " + g for pos, g in self.ghosts if pos >= len(self.methods)]
        for it in self.extra_items:
            L.append("    " + it)
        L.append("}")
        return "\n".join(L)


GHOSTS = ["#[cfg(any())] fn ghost_a(&self, q: NoSuchType) -> i32;",
          "#[cfg_attr(all(), cfg(any()))] fn ghost_b(&self, x: i32) -> i32;",
          "#[cfg_attr(not(any()), cfg(not(all())))] #[allow(unused)] fn ghost_c(&self, x: i32, y: i32);",
          "/// docs\n    #[cfg_attr(all(), allow(unused), cfg(any()))] fn ghost_d(&self) -> i32;"]


# the same ghosts as fns of an entraited impl block (same gate, so that trait, target trait and block agree)
GHOST_IMPL_FNS = ["#[cfg(any())] pub fn ghost_a<D>(deps: &D, q: NoSuchType) -> i32 { 0 }",
                  "#[cfg_attr(all(), cfg(any()))] pub fn ghost_b<D>(deps: &D, x: i32) -> i32 { x }",
                  "#[cfg_attr(not(any()), cfg(not(all())))] #[allow(unused)] pub fn ghost_c<D>(deps: &D, x: i32, y: i32) {}",
                  "/// docs\n    #[cfg_attr(all(), allow(unused), cfg(any()))] pub fn ghost_d<D>(deps: &D) -> i32 { 0 }"]


def random_trait(rng, name="Tr", dyn_safe=False, allow_async=True, with_async_trait=False, allow_generic_trait=True, nmethods=None, uninferable=False,
                 allow_ghost=False):
    t = TraitSpec(name)
    if allow_ghost and rng.random() < 0.12:
        t.inner_attrs = rng.sample(["#![allow(non_snake_case)]", "//! inner docs of the trait", "#![doc = \"more\"]", "#![allow(unused_variables, clippy::all)]"], rng.randint(1, 2))
    if allow_ghost and rng.random() < 0.15:
        # a method that no build contains (disabled by `cfg`, or by a `cfg` that a `cfg_attr` produces): the trait, the
        # delegating impl and hand-written impls all have to agree that it does not exist
        t.ghosts = [(rng.randint(0, 3), rng.choice(GHOSTS)) for _ in range(rng.randint(1, 2))]
    t.vis = rng.choice(["", "pub", "pub(crate)"] * 3 + ["pub(self)", "pub(super)", "pub(in crate)"])
    t.attrs = rng.sample(TRAIT_ATTRS, rng.randint(0, 2)) if rng.random() < 0.5 else []
    if rng.random() < 0.2:
        # token-identical attributes: every `///` line is a `#[doc = ".."]` of its own (blank lines and code fences repeat)
        t.attrs = rng.choice([["/// Summary.", "///", "/// ```text", "/// example", "/// ```", "///", "/// More."],
                              ["#[allow(dead_code)]", "#[allow(dead_code)]"], ["/// same", "/// same", "#[doc(hidden)]", "/// same"]]) + t.attrs
    t.generic = allow_generic_trait and rng.random() < 0.25
    if allow_generic_trait and rng.random() < 0.2:
        t.const_pos = rng.choice(["before", "after"])
    if allow_generic_trait and not dyn_safe and rng.random() < 0.15:
        # (not for `dyn Tr<'t>` selectors: with the `'static` supertrait they need, `'t: 'static` would have to hold)
        t.lt_param = True
    if allow_generic_trait and (t.generic or t.const_pos) and rng.random() < 0.3:
        t.defaults = True
    if with_async_trait:
        # (also through a re-export: the attribute is recognised by the *last* segment of its path)
        t.async_trait = rng.choice(["#[::async_trait::async_trait]", "#[async_trait::async_trait]", "#[::async_trait::async_trait(?Send)]",
                                    "#[rx::async_trait]", "#[self::rx::inner::async_trait]", "#[rx::async_trait(?Send)]"])
    n = nmethods or rng.randint(1, 4)
    same = rng.random() < 0.4 and n >= 2
    first = None
    import copy
    for i in range(n):
        if same and first is not None:
            m = copy.deepcopy(first)
            m.name = "m%d" % i
        else:
            m = random_method(rng, "m%d" % i, allow_async=allow_async, allow_generic=not dyn_safe, dyn_safe=dyn_safe, trait_generic=t.generic, uninferable=uninferable)
            if first is None:
                first = m
        t.methods.append(m)
    if rng.random() < 0.3:
        t.supers.append(rng.choice(["::core::marker::Send", "::core::marker::Sync", "::core::marker::Sized"]) if not dyn_safe else "::core::marker::Send")
    if rng.random() < 0.2 and t.generic:
        t.where.append("G: ::core::marker::Sized")
    if t.supers and rng.random() < 0.25:
        t.trailing_plus = True
    if rng.random() < 0.15:
        # a where clause that constrains `Self` (present with and without generic parameters)
        t.where.append("Self: 'static")
    return t


RX_MOD = "pub mod rx { pub use ::async_trait::async_trait; pub mod inner { pub use ::async_trait::async_trait; } }"


def support_for(methods, trait=None):
    need = set()
    for m in methods:
        for p in m.params:
            need |= set(p.ty.needs)
    return [SUPPORT[n] for n in sorted(need)] + ([RX_MOD] if trait is not None and "rx::" in (trait.async_trait or "") else [])
