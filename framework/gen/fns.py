"""Grammar-based generator of entraited functions / modules together with the ground truth
the checkers need (expected events, call expressions, fn-pointer witnesses)."""
import itertools

# ---------------------------------------------------------------------------
# type palette: name -> dict(ty, mk(k)->(setup, expr, debug), copy, patterns)
# patterns: list of (pattern_text_template, [binding names], fn(debug_parts)->[debug per binding])
# ---------------------------------------------------------------------------


class Ty:
    def __init__(self, key, ty, mk, pats=(), needs=(), ptr=None):
        self.key = key
        self.ptr = ptr        # the type standing for it in a fn-pointer type (argument-position `impl Trait`)
        self.ty = ty
        self.mk = mk          # k, uniq -> (setup_stmt or "", expr, debug string of the whole value, parts)
        self.pats = pats      # destructuring patterns available for this type
        self.needs = needs    # support items needed ("N", "N2", "S")


def _i32(k, u):
    return "", "%di32" % (100 + k), str(100 + k), None


def _u8(k, u):
    return "", "%du8" % (10 + k), str(10 + k), None


def _bool(k, u):
    return "", "true" if k % 2 else "false", "true" if k % 2 else "false", None


def _str(k, u):
    return "", '"s%d"' % k, '"s%d"' % k, None


def _string(k, u):
    return "", '::std::string::String::from("S%d")' % k, '"S%d"' % k, None


def _tup(k, u):
    return "", "(%di32, %di32)" % (200 + k, 300 + k), "(%d, %d)" % (200 + k, 300 + k), [str(200 + k), str(300 + k)]


def _n(k, u):
    return "", "N(%d)" % (400 + k), "N(%d)" % (400 + k), [str(400 + k)]


def _n2(k, u):
    return "", "N2(%d, %d)" % (500 + k, 600 + k), "N2(%d, %d)" % (500 + k, 600 + k), [str(500 + k), str(600 + k)]


def _s(k, u):
    return "", "S { a: %d }" % (700 + k), "S { a: %d }" % (700 + k), [str(700 + k)]


def _opt(k, u):
    return "", "::core::option::Option::Some(%di32)" % (800 + k), "Some(%d)" % (800 + k), None


def _arr(k, u):
    return "", "[%du8, %du8]" % (k % 200, (k + 1) % 200), "[%d, %d]" % (k % 200, (k + 1) % 200), [str(k % 200), str((k + 1) % 200)]


def _into(k, u):
    return "", "%di32" % (1100 + k), str(1100 + k), None


def _dynref(k, u):
    return "", "&%du8" % (k % 250), str(k % 250), None


def _slice(k, u):
    return "", "&[%du8, %du8][..]" % (k % 200, (k + 7) % 200), "[%d, %d]" % (k % 200, (k + 7) % 200), None


def _nest(k, u):
    return "", "((%di32, %di32), %di32)" % (1200 + k, 1300 + k, 1400 + k), "((%d, %d), %d)" % (1200 + k, 1300 + k, 1400 + k), [str(1200 + k), str(1300 + k), str(1400 + k)]


def _sink(k, u):
    return "let mut __v%s: ::std::vec::Vec<&str> = ::std::vec::Vec::new();" % u, "&mut __v%s" % u, "[]", None


def _refi(k, u):
    return "let __r%s = %di32;" % (u, 900 + k), "&__r%s" % u, str(900 + k), [str(900 + k)]


def _mutref(k, u):
    return "let mut __m%s = %di32;" % (u, 1000 + k), "&mut __m%s" % u, str(1000 + k), None


TYPES = {
    "i32": Ty("i32", "i32", _i32),
    "u8": Ty("u8", "u8", _u8),
    "bool": Ty("bool", "bool", _bool),
    "str": Ty("str", "&str", _str),
    "String": Ty("String", "::std::string::String", _string),
    "tup": Ty("tup", "(i32, i32)", _tup, pats=[("({0}, {1})", 2, [0, 1]), ("({0}, _)", 1, [0]), ("(_, _)", 0, []), ("{0} @ (_, _)", 1, [-1])]),
    # argument-position impl Trait, trait objects, slices, nested patterns
    "into": Ty("into", "impl ::core::convert::Into<i64> + ::core::fmt::Debug + ::core::marker::Send", _into, ptr="i32"),
    "dynref": Ty("dynref", "&(dyn ::core::fmt::Debug + ::core::marker::Sync)", _dynref),
    "slice": Ty("slice", "&[u8]", _slice),
    "sink": Ty("sink", "&mut ::std::vec::Vec<&str>", _sink),   # used with the deps lifetime: an invariant position
    "nest": Ty("nest", "((i32, i32), i32)", _nest, pats=[("(({0}, {1}), _)", 2, [0, 1]), ("(({0}, _), {1})", 2, [0, 2]), ("(_, {0})", 1, [2]), ("((_, {0}), ..)", 1, [1])]),
    "N": Ty("N", "N", _n, pats=[("N({0})", 1, [0]), ("N(_)", 0, [])], needs=("N",)),
    "N2": Ty("N2", "N2", _n2, pats=[("N2({0}, _)", 1, [0]), ("N2({0}, {1})", 2, [0, 1]), ("N2(_, {0})", 1, [1])], needs=("N2",)),
    "S": Ty("S", "S", _s, pats=[("S {{ a: {0} }}", 1, [0]), ("S {{ a: _ }}", 0, []), ("S {{ .. }}", 0, [])], needs=("S",)),
    "opt": Ty("opt", "::core::option::Option<i32>", _opt),
    "arr": Ty("arr", "[u8; 2]", _arr, pats=[("[{0}, {1}]", 2, [0, 1]), ("[{0}, ..]", 1, [0]), ("{0} @ [..]", 1, [-1])]),
    "refi": Ty("refi", "&i32", _refi, pats=[("&{0}", 1, [0])]),
    "mutref": Ty("mutref", "&mut i32", _mutref),
}

SUPPORT = {
    "N": "#[derive(Debug, Clone, Copy, PartialEq)] pub struct N(pub i32);",
    "N2": "#[derive(Debug, Clone, Copy, PartialEq)] pub struct N2(pub i32, pub i32);",
    "S": "#[derive(Debug, Clone, Copy, PartialEq)] pub struct S { pub a: i32 }",
}

PLAIN_NAMES = ["a", "b", "c", "d", "e", "f", "g", "h", "k", "m", "p", "q", "r", "s", "t", "u", "v", "w", "x", "y", "z"] + \
    ["a%s" % ch for ch in "abcdefghijklmnopqrtuvwxyz"] + ["b%s" % ch for ch in "abcdefghijklmnop"]
# names a generated body could plausibly bind itself (expansions are unhygienic: a generated `let inner = ..` would capture them)
LOCAL_LIKE = ["inner", "this", "target", "delegate", "fut", "future", "result", "res", "ret", "out", "value", "tmp", "app", "me",
                "_self", "self_", "args", "input", "output", "imp", "entrait", "deps_", "val", "arg"]
PLAIN_NAMES += LOCAL_LIKE * 3   # weighted: about half of all parameter names
# (no `__`-prefixed names: async_trait reserves `__self` / `__ret` / `__argN` for its own rewriting)


class Param:
    """One non-dependency parameter."""

    def __init__(self, ty, form="plain", names=("a",), pat_index=0, generic=None):
        self.ty = ty              # Ty
        self.form = form          # plain | mut | ref | raw | wild | destr
        self.names = list(names)  # binding names introduced (in order)
        self.pat_index = pat_index
        self.generic = generic    # name of the type parameter if the param has generic type
        self.attr = ""            # optional attribute text in front of the parameter

    def type_text(self):
        return self.generic if self.generic else self.ty.ty

    def pattern(self):
        n = self.names
        if self.form == "plain":
            return n[0]
        if self.form == "mut":
            return "mut " + n[0]
        if self.form == "ref":
            return "ref " + n[0]
        if self.form == "refmut":
            return "ref mut " + n[0]
        if self.form == "raw":
            return "r#" + n[0]
        if self.form == "wild":
            return "_"
        tmpl = self.ty.pats[self.pat_index][0]
        return tmpl.format(*n)

    def bindings(self):
        """Names usable in the body (raw ones in r# form)."""
        if self.form == "wild":
            return []
        if self.form == "raw":
            return ["r#" + self.names[0]]
        return list(self.names)

    def decl(self):
        return "%s%s: %s" % (self.attr, self.pattern(), self.type_text())

    def value(self, k, uniq):
        """(setup, expr, [debug per binding])"""
        setup, expr, dbg, parts = self.ty.mk(k, uniq)
        if self.form == "wild":
            return setup, expr, []
        if self.form == "destr":
            idxs = self.ty.pats[self.pat_index][2]
            return setup, expr, [dbg if i == -1 else parts[i] for i in idxs]   # -1: the binding holds the whole value (`x @ ..`)
        return setup, expr, [dbg]


class FnSpec:
    def __init__(self, name):
        self.name = name
        self.vis = ""
        self.attrs = []           # attribute lines above the fn (below entrait)
        self.is_async = False
        self.is_unsafe = False
        self.extern_c = False
        self.is_const = False
        # deps
        self.deps_kind = "generic_ref"   # generic_ref generic_val impl_ref impl_val concrete_ref concrete_val no_deps
        self.deps_name = "deps"
        self.deps_param = "D"            # type parameter name for generic_*
        self.deps_lifetime = None        # explicit lifetime on the deps reference
        self.bounds = []                 # list of bound texts on the deps
        self.bound_place = "inline"      # inline | where | split
        self.concrete_ty = "App"         # for concrete_*
        self.params = []
        self.type_params = []            # [(name, [bounds], place)] non-deps type params
        self.lifetimes = []              # [(name, [outlives])]
        self.const_params = []           # [(name, ty)]
        self.where_extra = []            # extra where predicates (text)
        self.ret = "owned"               # unit | owned | borrow_deps | borrow_arg | generic | i64
        self.ret_lifetime = None
        self.calls = []                  # [(trait method name, fn id)] nested dependency calls performed by the body
        self.body_extra = ""
        self.fn_id = name

    # -- rendering ---------------------------------------------------------
    def has_deps(self):
        return self.deps_kind != "no_deps"

    def by_value(self):
        return self.deps_kind.endswith("_val")

    def generics_text(self):
        items = []
        for lt, outl in self.lifetimes:
            items.append(lt + ((": " + " + ".join(outl)) if outl else ""))
        tps = []
        if self.deps_kind.startswith("generic"):
            b = self.bounds if self.bound_place == "inline" else (self.bounds[: len(self.bounds) // 2] if self.bound_place == "split" else [])
            tps.append(self.deps_param + ((": " + " + ".join(b)) if b else ""))
        for name, bnds, place in self.type_params:
            tps.append(name + ((": " + " + ".join(bnds)) if (bnds and place == "inline") else ""))
        if getattr(self, "deps_last", False) and len(tps) > 1:
            tps = tps[1:] + tps[:1]
        consts = ["const %s: %s" % (name, ty) for name, ty in self.const_params]
        # const parameters may be declared before or after the type parameters
        items += (consts + tps) if getattr(self, "const_first", False) else (tps + consts)
        return ("<" + ", ".join(items) + ">") if items else ""

    def where_text(self):
        preds = []
        if self.deps_kind.startswith("generic"):
            if self.bound_place == "where" and self.bounds:
                preds.append("%s: %s" % (self.deps_param, " + ".join(self.bounds)))
            elif self.bound_place == "split" and self.bounds[len(self.bounds) // 2:]:
                preds.append("%s: %s" % (self.deps_param, " + ".join(self.bounds[len(self.bounds) // 2:])))
        for name, bnds, place in self.type_params:
            if bnds and place == "where":
                preds.append("%s: %s" % (name, " + ".join(bnds)))
        preds += self.where_extra
        return (" where " + ", ".join(preds)) if preds else ""

    def deps_type(self):
        k = self.deps_kind
        lt = (self.deps_lifetime + " ") if self.deps_lifetime else ""
        if k == "generic_ref":
            return "&%s%s" % (lt, self.deps_param)
        if k == "generic_val":
            return self.deps_param
        if k == "impl_ref":
            inner = "impl " + " + ".join(self.bounds or ["::core::marker::Sized"])
            if len(self.bounds) > 1:
                inner = "(" + inner + ")"
            return "&%s%s" % (lt, inner)
        if k == "impl_val":
            return "impl " + " + ".join(self.bounds or ["::core::marker::Sized"])
        if k == "concrete_ref":
            return "&%s%s" % (lt, self.concrete_ty)
        if k == "concrete_val":
            return self.concrete_ty
        return None

    def ret_text(self):
        if self.ret == "unit":
            return ""
        if self.ret == "owned":
            return " -> ::std::string::String"
        if self.ret == "i64":
            return " -> i64"
        if self.ret == "impl_dbg":
            # an opaque return type (the value is a String)
            return " -> impl ::core::fmt::Debug + ::core::marker::Send"
        if self.ret in ("borrow_deps", "borrow_arg"):
            return " -> &%sstr" % ((self.ret_lifetime + " ") if self.ret_lifetime else "")
        if self.ret == "generic":
            return " -> " + self.ret_generic
        raise ValueError(self.ret)

    def sig_text(self):
        q = ""
        if self.is_const:
            q += "const "
        if self.is_async:
            q += "async "
        if self.is_unsafe:
            q += "unsafe "
        if self.extern_c:
            q += 'extern "C" '
        ps = []
        if self.has_deps():
            ps.append("%s: %s" % (self.deps_name, self.deps_type()))
        ps += [p.decl() for p in self.params]
        return "%s%sfn %s%s(%s)%s%s" % ((self.vis + " ") if self.vis else "", q, self.name, self.generics_text(),
                                        ", ".join(ps), self.ret_text(), self.where_text())

    def logged(self):
        out = []
        for p in self.params:
            out += p.bindings()
        return out

    def body_text(self):
        b = []
        logs = ", ".join("&%s as &dyn ::core::fmt::Debug" % n for n in self.logged())
        dn = self.deps_name
        usable = self.has_deps() and dn != "_"
        if not usable:
            b.append('::vrt::enter("%s", "", 0, &[%s]);' % (self.fn_id, logs))
        elif self.by_value():
            b.append('::vrt::enter("%s", ::vrt::tn(&%s), ::vrt::Tag::tag(&%s), &[%s]);' % (self.fn_id, dn, dn, logs))
        else:
            b.append('::vrt::enter("%s", ::vrt::tn(%s), ::vrt::addr(%s), &[%s]);' % (self.fn_id, dn, dn, logs))
        if self.is_async:
            b.append("::vrt::yield_once().await;")
        for meth, _fid, arg, is_async in self.calls:
            b.append("let _ = %s.%s(%s)%s;" % (dn, meth, arg, ".await" if is_async else ""))
        if self.body_extra:
            b.append(self.body_extra)
        if self.ret == "unit":
            pass
        elif self.ret in ("owned", "impl_dbg"):
            fmt = self.fn_id + "".join("|{:?}" for _ in self.logged())
            b.append('::std::format!("%s"%s)' % (fmt, "".join(", " + n for n in self.logged())))
        elif self.ret == "i64":
            b.append(self.ret_expr)
        elif self.ret == "borrow_deps":
            b.append("::vrt::HasName::name(%s)" % dn)
        elif self.ret == "borrow_arg":
            b.append(self.ret_expr)
        elif self.ret == "generic":
            b.append(self.ret_expr)
        return "{\n        " + "\n        ".join(b) + "\n    }"

    def source(self, indent="    "):
        lines = [indent + a for a in self.attrs]
        lines.append(indent + self.sig_text() + " " + self.body_text())
        return "\n".join(lines)

    # -- fn-pointer witness ---------------------------------------------------
    def inst(self, text):
        """Instantiate non-deps generic parameters in a type text (type params -> i32, consts -> 2)."""
        import re
        for name, _b, _p in self.type_params:
            text = re.sub(r"\b%s\b" % re.escape(name), "i32", text)
        for name, _t in self.const_params:
            text = re.sub(r"\b%s\b" % re.escape(name), "2", text)
        return text

    def ptr_type(self, app_ty, with_receiver):
        """The signature as a fn-pointer type, seen as a function of (receiver, args...)."""
        q = ""
        if self.is_unsafe:
            q += "unsafe "
        if self.extern_c:
            q += 'extern "C" '
        ps = []
        lt = (self.deps_lifetime + " ") if self.deps_lifetime else ""
        if self.deps_kind == "no_deps":
            if with_receiver:
                ps.append("&" + app_ty)
        elif self.by_value():
            ps.append(app_ty)
        else:
            ps.append("&%s%s" % (lt, app_ty))
        for p in self.params:
            ps.append(self.inst(p.type_text()) if (p.generic or not p.ty.ptr) else p.ty.ptr)
        if self.ret == "unit":
            r = ""
        elif self.ret == "generic":
            r = " -> i32"
        else:
            r = self.inst(self.ret_text())
        return "%sfn(%s)%s" % (q, ", ".join(ps), r)

    def witness_generics(self):
        items = []
        for lt, outl in self.lifetimes:
            extra = [w.split(":")[1].strip() for w in self.where_extra if w.strip().startswith(lt + ":")]
            allb = list(outl) + extra
            items.append(lt + ((": " + " + ".join(allb)) if allb else ""))
        return ("<" + ", ".join(items) + ">") if items else ""

    # -- calls -------------------------------------------------------------
    def call_args(self, base, uniq):
        """-> (setup statements, [arg exprs], [debug strings of logged bindings])"""
        setups, exprs, dbg = [], [], []
        for i, p in enumerate(self.params):
            s, e, d = p.value(base + i, "%s_%d" % (uniq, i))
            if s:
                setups.append(s)
            exprs.append(e)
            dbg += d
        return setups, exprs, dbg

    def wrap_call(self, call):
        if self.is_async:
            call = "::vrt::block_on(%s)" % call
        if self.is_unsafe:
            call = "unsafe { %s }" % call
        return call


def fix_raw(name):
    return name
