"""Expansion-only corpus shared by C02 / C15 / C20 (and fed with every other corpus' records)."""
from ..core import Case
from . import soup

FN_OPTS = [[], [], ["no_deps"], ["export"], ["?Send"], ["mock_api = M"], ["unimock"], ["unimock = false"],
           ["mockall"], ["mockall = false"], ["export", "mockall"], ["mock_api = M", "unimock", "export"],
           ["debug = false"], ["no_deps = false", "export = false"], ["?Send", "unimock", "mock_api = Api"]]

MOD_OPTS = [o for o in FN_OPTS if "no_deps" not in " ".join(o)]
TRAIT_VIS = ["", "pub ", "pub(crate) ", "pub(super) ", "pub(in crate) "]
MACROS = ["entrait", "entrait", "entrait_export"]


def attr(rng, kind, name):
    opts = list(rng.choice(FN_OPTS if kind == "fn" else MOD_OPTS))
    rng.shuffle(opts)
    vis = rng.choice(TRAIT_VIS if kind == "fn" else TRAIT_VIS[:3])
    args = ", ".join([vis + name] + opts)
    return "#[::entrait::%s(%s)] /*@inv*/" % (rng.choice(MACROS), args), opts


def fn_case(cid, rng):
    a, opts = attr(rng, "fn", "Tr")
    deps = None
    if any(o.startswith("no_deps") and "false" not in o for o in opts):
        deps = rng.choice([("", "first: u8", ""), ("<T>", "first: T", "where T: Clone"), ("", "", "")])
    body = soup.rich_fn(rng, rng.choice(["f", "subject", "r#try"]), deps=deps, min_stmts=2)
    src = "%s\n%s\n" % (a, body)
    return Case(cid, src, meta={"kind": "fn", "options": opts}, run=False, expect="expand")


def mod_case(cid, rng):
    a, opts = attr(rng, "mod", "Tr")
    body = soup.rich_mod(rng, "the_mod")
    return Case(cid, "%s\n%s\n" % (a, body), meta={"kind": "mod", "options": opts}, run=False, expect="expand")


def impl_case(cid, rng):
    a = "#[::entrait::%s(%s)] /*@inv*/" % (rng.choice(MACROS), rng.choice(["", "", "ref", "dyn", "debug = false", "ref, debug = false"]))
    body = soup.rich_impl(rng, rng.choice(["TraitImpl", "crate::some::TraitImpl", "TraitImpl<u8>", "::abs::TraitImpl"]),
                          rng.choice(["MyType", "crate::x::MyType", "Vec<u8>", "(u8, i8)", "[u8; 2]", "&'static str"]))
    return Case(cid, "%s\n%s\n" % (a, body), meta={"kind": "impl"}, run=False, expect="expand")


def corpus(prefix, n, rng, kinds=("fn", "fn", "mod", "impl")):
    out = []
    for i in range(n):
        k = rng.choice(kinds)
        cid = "%s_%05d" % (prefix, i)
        out.append({"fn": fn_case, "mod": mod_case, "impl": impl_case}[k](cid, rng))
    return out
