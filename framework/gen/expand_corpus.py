"""Expansion-only corpus shared by C02 / C15 / C20 (and fed with every other corpus' records)."""
from ..core import Case
from . import soup

FN_OPTS = [[], [], ["no_deps"], ["export"], ["?Send"], ["mock_api = M"], ["unimock"], ["unimock = false"],
           ["mockall"], ["mockall = false"], ["export", "mockall"], ["mock_api = M", "unimock", "export"],
           ["debug = false"], ["no_deps = false", "export = false"], ["?Send", "unimock", "mock_api = Api"]]

MOD_OPTS = [o for o in FN_OPTS if "no_deps" not in " ".join(o)]
TRAIT_VIS = ["", "pub ", "pub(crate) ", "pub(super) ", "pub(in crate) "]
MACROS = ["entrait", "entrait", "entrait_export"]


def attr(rng, kind, name):
    opts = list(rng.choice(FN_OPTS if kind == "fn" else MOD_OPTS))
    rng.shuffle(opts)
    vis = rng.choice(TRAIT_VIS if kind == "fn" else TRAIT_VIS[:3])
    args = ", ".join([vis + name] + opts)
    return "#[::entrait::%s(%s)] /*@inv*/" % (rng.choice(MACROS), args), opts


def fn_case(cid, rng):
    a, opts = attr(rng, "fn", "Tr")
    deps = None
    if any(o.startswith("no_deps") and "false" not in o for o in opts):
        deps = rng.choice([("", "first: u8", ""), ("<T>", "first: T", "where T: Clone"), ("", "", "")])
    body = soup.rich_fn(rng, rng.choice(["f", "subject", "r#try"]), deps=deps, min_stmts=2)
    src = "%s\n%s\n" % (a, body)
    return Case(cid, src, meta={"kind": "fn", "options": opts}, run=False, expect="expand")


def mod_case(cid, rng):
    a, opts = attr(rng, "mod", "Tr")
    body = soup.rich_mod(rng, "the_mod")
    return Case(cid, "%s\n%s\n" % (a, body), meta={"kind": "mod", "options": opts}, run=False, expect="expand")


def impl_case(cid, rng):
    a = "#[::entrait::%s(%s)] /*@inv*/" % (rng.choice(MACROS), rng.choice(["", "", "ref", "dyn", "debug = false", "ref debug = false"]))
    body = soup.rich_impl(rng, rng.choice(["TraitImpl", "crate::some::TraitImpl", "TraitImpl<u8>", "::abs::TraitImpl"]),
                          rng.choice(["MyType", "crate::x::MyType", "Vec<u8>", "(u8, i8)", "[u8; 2]", "&'static str"]))
    return Case(cid, "%s\n%s\n" % (a, body), meta={"kind": "impl"}, run=False, expect="expand")


def macro_case(cid, rng):
    """Inputs produced by macro_rules! with ident / ty / expr / block / tt / path fragments: the macro receives
    None-delimited groups and tokens of mixed hygiene."""
    frags = [("$t:ty", "$t", rng.choice(["u8", "Vec<(u8, &'static str)>", "Option<Box<dyn Fn(u8) -> u8>>", "[u8; 2 + 2]"])),
             ("$e:expr", "$e", rng.choice(["1 + 2 * 3", "|x: u8| x + 1", "if true { 1 } else { 2 }", "vec![1, 2]"])),
             ("$b:block", "$b", rng.choice(["{ 1 }", "{ let x = 2; x * 3 }"])),
             ("[ $($tt:tt)* ]", "$($tt)*", "[ " + rng.choice(["let _ = (1, [2], {3});", "loop { break; }"]) + " ]"),
             ("$p:path", "$p", rng.choice(["::core::clone::Clone", "some::path::Tr"])),
             ("$n:ident", "$n", rng.choice(["param_name", "r#type"])),
             ("$l:lifetime", "$l", "'q"), ("$lit:literal", "$lit", rng.choice(["42", "\"str\""]))]
    frags.insert(0, ("$v:vis", "$v", rng.choice(["pub", "pub(crate)", ""])))
    kind = rng.choice(["fn", "fn", "mod"])
    a, opts = attr(rng, kind, "Tr")
    a = a.replace(" /*@inv*/", "")
    matcher = "; ".join(f[0] for f in frags).replace("$v:vis;", "$v:vis,")
    args = "; ".join(f[2] for f in frags).replace(frags[0][2] + ";", frags[0][2] + ",", 1)
    fn = "$v fn target<$l, D: $p>(deps: &$l D, $n: $t, other: [u8; $lit]) -> $t where D: $p { let _ = $e; let _ = $b; $($tt)* unimplemented!() }"
    if kind == "fn":
        body = "%s /*@inv*/\n        %s" % (a, fn)
    else:
        body = "%s /*@inv*/\n        mod the_mod { pub struct S; %s const C: $t = $e; fn private() %s }" % (a, fn.replace("$v fn", "pub fn"), "$b" if rng.random() < 0.1 else "{ $b }")
    src = "macro_rules! make {\n    (%s) => {\n        %s\n    };\n}\nmake!(%s);\n" % (matcher, body, args)
    return Case(cid, src, meta={"kind": "macro_rules:" + kind, "options": opts}, run=False, expect="expand")


def corpus(prefix, n, rng, kinds=("fn", "fn", "mod", "impl", "macro")):
    out = []
    for i in range(n):
        k = rng.choice(kinds)
        cid = "%s_%05d" % (prefix, i)
        out.append({"fn": fn_case, "mod": mod_case, "impl": impl_case, "macro": macro_case}[k](cid, rng))
    return out
