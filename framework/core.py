"""Core of the runtime-monitoring framework: workspaces, cargo driver, log loaders,
verdicts, evidence, known findings.  Python stdlib only."""
import hashlib
import json
import os
import random
import re
import shutil
import subprocess
import sys
import time
from pathlib import Path

VERIF = Path(__file__).resolve().parent.parent
REPO = Path(os.environ.get("VERIF_REPO", "/repo"))
WORK = Path(os.environ.get("VERIF_WORK", str(VERIF / "work")))
TARGET = WORK / "target"
EVIDENCE = VERIF / "evidence"
GUARD = "audunhalland_entrait_verif"
NCPU = os.cpu_count() or 4

EXIT_OK, EXIT_VIOLATION, EXIT_INCONCLUSIVE = 0, 1, 2


class Inconclusive(Exception):
    pass


def log(*a):
    print(*a, file=sys.stderr, flush=True)


# ---------------------------------------------------------------------------
# cases
# ---------------------------------------------------------------------------

class Case:
    """One generated client module: file src/c/<id>.rs of some shard."""

    def __init__(self, cid, src, meta=None, run=True, tags=(), expect="compile", group=None):
        self.id = cid
        self.src = src
        self.meta = meta or {}
        self.run = run
        self.tags = set(tags)
        self.expect = expect  # compile | expand | error
        self.group = group
        self.marks = {}
        # line markers: /*@name*/ anywhere on a line
        for i, line in enumerate(src.split("\n"), 1):
            for m in re.finditer(r"/\*@([A-Za-z0-9_]+)\*/", line):
                self.marks[m.group(1)] = i
        # filled in by the driver
        self.records = []      # expansion records (dicts) in line order (latest build)
        self.records_by = {}   # build tag -> records
        self.diags = []        # compiler diagnostics attributed to this case
        self.runrec = {}       # build label -> run record
        self.removed = None    # reason if removed by fix-point compilation

    def sig(self):
        return hashlib.sha1(re.sub(r"\b%s\b" % re.escape(self.id), "ID", self.src).encode()).hexdigest()[:16]


# ---------------------------------------------------------------------------
# expansion records
# ---------------------------------------------------------------------------

def load_dump(dump_dir):
    recs = {}
    out = []
    d = Path(dump_dir)
    if not d.exists():
        return out
    for f in sorted(d.glob("dump-*.jsonl")):
        with open(f) as fh:
            for line in fh:
                line = line.strip()
                if not line:
                    continue
                try:
                    ev = json.loads(line)
                except json.JSONDecodeError:
                    raise Inconclusive("corrupt dump line in %s" % f)
                key = (f.name, ev["pid"], ev["seq"])
                if ev["ev"] == "begin":
                    ev["status"] = "open"
                    recs[key] = ev
                    out.append(ev)
                elif ev["ev"] == "end":
                    r = recs.get(key)
                    if r is None:
                        raise Inconclusive("end without begin in dump")
                    r["output"] = ev["output"]
                    r["status"] = "end"
                elif ev["ev"] == "panic":
                    r = recs.get(key)
                    if r is None:
                        raise Inconclusive("panic without begin in dump")
                    r["panic"] = ev["msg"]
                    r["status"] = "panic"
    return out


# ---------------------------------------------------------------------------
# workspace + cargo driver
# ---------------------------------------------------------------------------

def cargo_env(extra=None):
    env = dict(os.environ)
    env.update({
        "CARGO_TARGET_DIR": str(TARGET),
        "CARGO_NET_OFFLINE": "true",
        "RUSTFLAGS": "--cfg %s" % GUARD,
        "CARGO_INCREMENTAL": "0",
        "CARGO_PROFILE_DEV_DEBUG": "0",
        "CARGO_PROFILE_TEST_DEBUG": "0",
        "CARGO_TERM_COLOR": "never",
        "RUST_BACKTRACE": "0",
    })
    env.pop("RUSTC_WRAPPER", None)
    if extra:
        env.update(extra)
    return env


class Shard:
    def __init__(self, name, cases):
        self.name = name
        self.cases = cases


SHARD_CAP = 1500


class Workspace:
    """A generated cargo workspace of client shards depending on /repo."""

    def __init__(self, check, label, unimock=False, deps=(), vattr=False, nshards=None,
                 expand_only=False, kind="bin", crate_attrs="", prelude="", edition="2021",
                 extra_crates=None):
        self.check = check.lower()
        self.label = label
        self.unimock = unimock
        self.deps = tuple(deps)
        self.vattr = vattr
        self.expand_only = expand_only
        self.kind = kind
        self.crate_attrs = crate_attrs
        self.prelude = prelude
        self.edition = os.environ.get("VERIF_EDITION", edition)
        self.extra_crates = extra_crates or {}   # name -> {"Cargo.toml":..., "src/lib.rs":...}
        self.nshards = nshards
        self.cases = []
        self.root = WORK / self.check / ("ws_" + label)
        self.dump_root = WORK / self.check / ("dump_" + label)
        self.shards = []
        self.rounds = 0
        self.build_s = 0.0

    def add(self, case):
        self.cases.append(case)

    def extend(self, cases):
        self.cases.extend(cases)

    # -- writing -----------------------------------------------------------
    def shard_name(self, k):
        return "%s_%s_s%d" % (self.check, self.label, k)

    def write(self):
        if self.root.exists():
            shutil.rmtree(self.root)
        self.root.mkdir(parents=True)
        n = self.nshards or max(1, min(NCPU, (len(self.cases) + 7) // 8))
        if not self.nshards and len(self.cases) > n * SHARD_CAP:
            # rustc's memory grows with the shard; 16 shards of 15k modules each exhausted the 62 GB of this machine
            n = (len(self.cases) + SHARD_CAP - 1) // SHARD_CAP
        buckets = [[] for _ in range(n)]
        for i, c in enumerate(self.cases):
            buckets[i % n].append(c)
        self.shards = [Shard(self.shard_name(k), b) for k, b in enumerate(buckets) if b]
        members = [s.name for s in self.shards] + ["vrt"] + (["vattr"] if self.vattr else []) + list(self.extra_crates)
        (self.root / "Cargo.toml").write_text(
            "[workspace]\nresolver = \"2\"\nmembers = [%s]\n\n[profile.dev]\ndebug = 0\nincremental = false\n[profile.test]\ndebug = 0\nincremental = false\n"
            % ", ".join('"%s"' % m for m in members))
        (self.root / ".cargo").mkdir()
        (self.root / ".cargo" / "config.toml").write_text("[net]\noffline = true\n")
        lock = REPO / "Cargo.lock"
        if lock.exists():
            shutil.copy(lock, self.root / "Cargo.lock")
        shutil.copytree(VERIF / "client_rt" / "vrt", self.root / "vrt")
        if self.vattr:
            shutil.copytree(VERIF / "client_rt" / "vattr", self.root / "vattr")
        self.write_extra()
        for s in self.shards:
            self.write_shard(s)

    def write_extra(self):
        live = [c for c in self.cases if c.removed is None]
        for name, files in self.extra_crates.items():
            if callable(files):
                files = files(live)
            for rel, content in files.items():
                p = self.root / name / rel
                p.parent.mkdir(parents=True, exist_ok=True)
                if not p.exists() or p.read_text() != content:
                    p.write_text(content)

    def dep_lines(self):
        feats = ', features = ["unimock"]' if self.unimock else ""
        lines = ['entrait = { path = "%s"%s }' % (REPO, feats), 'vrt = { path = "../vrt" }']
        if self.vattr:
            lines.append('vattr = { path = "../vattr" }')
        for d in self.deps:
            if d == "unimock":
                lines.append('unimock = "0.6"')
            elif d == "mockall":
                lines.append('mockall = "0.12"')
            elif d == "async-trait":
                lines.append('async-trait = "0.1"')
            else:
                lines.append(d)
        for name in self.extra_crates:
            lines.append('%s = { path = "../%s" }' % (name, name))
        return lines

    def write_shard(self, s):
        d = self.root / s.name
        if d.exists():
            shutil.rmtree(d)
        (d / "src" / "c").mkdir(parents=True)
        target = "[[bin]]\nname = \"%s\"\npath = \"src/main.rs\"\n" % s.name
        (d / "Cargo.toml").write_text(
            "[package]\nname = \"%s\"\nversion = \"0.0.0\"\nedition = \"%s\"\n\n%s\n[dependencies]\n%s\n"
            % (s.name, self.edition, target, "\n".join(self.dep_lines())))
        live = [c for c in s.cases if c.removed is None]
        main = ["#![allow(warnings)]", self.crate_attrs, self.prelude]
        if self.expand_only:
            main.append("use ::vrt_sentinel_missing_crate::Nothing as _;")
        for c in live:
            (d / "src" / "c" / (c.id + ".rs")).write_text(c.src)
            main.append('#[path = "c/%s.rs"] pub mod %s;' % (c.id, c.id))
        main.append("pub fn vrt_main() {\n    ::vrt::quiet_panics();")
        for c in live:
            if c.run and not self.expand_only:
                main.append('    if ::vrt::selected("%s") { ::vrt::run_case("%s", %s::run); }' % (c.id, c.id, c.id))
        main.append("}\nfn main() { vrt_main() }")
        main.append("#[cfg(test)] mod vrt_tests { #[test] fn all() { super::vrt_main() } }")
        (d / "src" / "main.rs").write_text("\n".join(main) + "\n")

    # -- building ----------------------------------------------------------
    def case_by_file(self):
        return {c.id + ".rs": c for c in self.cases}

    def _attribute(self, msg, by_file):
        """Find the case a diagnostic belongs to (through macro expansion chains)."""
        def walk(span, depth=0):
            if span is None or depth > 12:
                return None
            fn = os.path.basename(span.get("file_name", ""))
            if fn in by_file:
                return by_file[fn], span.get("line_start")
            exp = span.get("expansion")
            if exp:
                return walk(exp.get("span"), depth + 1)
            return None
        spans = msg.get("spans", [])
        for sp in sorted(spans, key=lambda s: not s.get("is_primary")):
            r = walk(sp)
            if r:
                return r
        for ch in msg.get("children", []):
            for sp in ch.get("spans", []):
                r = walk(sp)
                if r:
                    return r
        return None

    def cargo(self, test=False, timeout=1800, env_extra=None, build_tag="bin"):
        """One cargo invocation over all shards. Returns (ok, errors_unattributed, executables)."""
        dump = self.dump_root / build_tag
        if dump.exists():
            shutil.rmtree(dump)
        dump.mkdir(parents=True)
        env = cargo_env({"ENTRAIT_VERIF_DUMP": str(dump), "VATTR_LOG": str(dump)})
        if env_extra:
            env.update(env_extra)
        cmd = ["cargo", "test", "--no-run"] if test else ["cargo", "build"]
        cmd += ["--offline", "--message-format=json"]
        if not test:
            cmd += ["--keep-going"]
        for s in self.shards:
            if any(c.removed is None for c in s.cases):
                cmd += ["-p", s.name]
        t0 = time.time()
        try:
            p = subprocess.run(cmd, cwd=self.root, env=env, stdout=subprocess.PIPE, stderr=subprocess.PIPE,
                               timeout=timeout, text=True)
        except subprocess.TimeoutExpired:
            raise Inconclusive("cargo watchdog fired after %ss (%s)" % (timeout, self.label))
        self.build_s += time.time() - t0
        by_file = self.case_by_file()
        for c in self.cases:
            c.diags = []
        unattributed = []
        exes = {}
        for line in p.stdout.split("\n"):
            if not line.startswith("{"):
                continue
            try:
                m = json.loads(line)
            except json.JSONDecodeError:
                continue
            if m.get("reason") == "compiler-artifact":
                tgt = m.get("target", {})
                if m.get("executable") and tgt.get("name") in {s.name for s in self.shards}:
                    exes[tgt["name"]] = m["executable"]
            elif m.get("reason") == "compiler-message":
                msg = m["message"]
                if msg.get("level") not in ("error", "error: internal compiler error"):
                    continue
                code = (msg.get("code") or {}).get("code")
                text = msg.get("message", "")
                if text.startswith("aborting due to") or text.startswith("could not compile"):
                    continue
                if self.expand_only and "vrt_sentinel_missing_crate" in text + json.dumps(msg.get("spans", []))[:2000]:
                    continue
                d = {"code": code, "message": text, "rendered": (msg.get("rendered") or "")[:1500],
                     "target": m.get("target", {}).get("name")}
                a = self._attribute(msg, by_file)
                if a:
                    d["line"] = a[1]
                    a[0].diags.append(d)
                else:
                    unattributed.append(d)
        ok = p.returncode == 0
        if not ok and "error: failed to select a version" in p.stderr or "no matching package" in p.stderr:
            raise Inconclusive("cargo could not resolve offline: %s" % p.stderr[-800:])
        self.last_stderr = p.stderr
        return ok, unattributed, exes, dump

    def build(self, test=False, build_tag=None, max_rounds=8, timeout=1800, env_extra=None):
        """Fix-point compilation: failing cases are recorded and removed until the rest builds.
        Returns dict(exes, dump, removed)."""
        build_tag = build_tag or ("test" if test else "bin")
        removed = []
        for rnd in range(max_rounds):
            self.rounds += 1
            ok, unattr, exes, dump = self.cargo(test=test, build_tag=build_tag, timeout=timeout, env_extra=env_extra)
            failing = [c for c in self.cases if c.removed is None and c.diags]
            # shards that were not rebuilt in this round keep the records of the round that built them
            self.attach_records(dump)
            if self.expand_only:
                if unattr:
                    raise Inconclusive("unattributed compiler errors in expand-only corpus %s: %s"
                                       % (self.label, unattr[0]["rendered"][:600]))
                return {"exes": {}, "dump": dump, "removed": []}
            if ok and not failing:
                return {"exes": exes, "dump": dump, "removed": removed}
            if not failing:
                raise Inconclusive("build of %s failed without attributable diagnostics: %s | %s" % (
                    self.label, (unattr[0]["rendered"][:800] if unattr else ""), self.last_stderr[-600:]))
            for c in failing:
                c.removed = {"round": rnd, "diags": c.diags[:4]}
                removed.append(c)
            for s in self.shards:
                if any(c in failing for c in s.cases):
                    self.write_shard(s)
            self.write_extra()
        raise Inconclusive("fix-point compilation did not converge in %d rounds (%s)" % (max_rounds, self.label))

    def attach_records(self, dump, only=None):
        # log of the foreign attribute macro: entries of files rebuilt in this round replace older ones
        vl = []
        for f in sorted(Path(dump).glob("vattr-*.jsonl")):
            for line in f.read_text().split("\n"):
                if line.strip():
                    vl.append(json.loads(line))
        files = {v["file"] for v in vl}
        self.vattr_log = [v for v in getattr(self, "vattr_log", []) if v["file"] not in files] + vl
        recs = load_dump(dump)
        by_file = self.case_by_file()
        sel = {c.id for c in only} if only is not None else None
        per = {}
        for r in recs:
            c = by_file.get(os.path.basename(r.get("file", "")))
            if c is None:
                continue
            if sel is not None and c.id not in sel:
                continue
            per.setdefault(c.id, []).append(r)
        for cid, rs in per.items():
            c = by_file[cid + ".rs"]
            rs.sort(key=lambda r: (r["line"], r["seq"]))
            c.records = rs
            c.records_by[os.path.basename(str(dump))] = rs
        self.all_records = getattr(self, "all_records", []) + recs if getattr(self, "_keep_all", False) else recs
        if not recs and sel is None and any(c.removed is None and "entrait" in c.src for c in self.cases):
            # a build that recorded no expansion at all observed nothing (cargo itself failed, e.g. a broken environment):
            # never "held", always inconclusive
            raise Inconclusive("the build of workspace %s recorded no expansion at all" % self.label)
        return recs

    # -- running -----------------------------------------------------------
    def run(self, exes, tag="bin", timeout=600, env_extra=None):
        """Run every shard binary; collect one record per case. A crash of the process
        (signal) is pinned on the first case without a record, and the rest is re-run."""
        import concurrent.futures
        outdir = WORK / self.check / ("run_" + self.label + "_" + tag)
        if outdir.exists():
            shutil.rmtree(outdir)
        outdir.mkdir(parents=True)

        def run_shard(s):
            exe = exes.get(s.name)
            live = [c for c in s.cases if c.removed is None and c.run]
            if not live:
                return
            if not exe:
                raise Inconclusive("no executable for shard %s" % s.name)
            pending = [c.id for c in live]
            attempt = 0
            while pending and attempt < 20:
                attempt += 1
                out = outdir / ("%s_%d.jsonl" % (s.name, attempt))
                env = dict(os.environ)
                env.update({"VRT_OUT": str(out), "VRT_ONLY": ",".join(pending), "RUST_BACKTRACE": "0"})
                if env_extra:
                    env.update(env_extra)
                args = [exe]
                if tag.startswith("test"):
                    args += ["--test-threads=1", "-q"]
                try:
                    p = subprocess.run(args, env=env, stdout=subprocess.PIPE, stderr=subprocess.PIPE, timeout=timeout)
                    rc = p.returncode
                except subprocess.TimeoutExpired:
                    rc = "timeout"
                seen = []
                if out.exists():
                    for line in out.read_text().split("\n"):
                        if line.strip():
                            try:
                                rec = json.loads(line)
                            except json.JSONDecodeError:
                                continue
                            seen.append(rec["case"])
                            by_id[rec["case"]].runrec[tag] = rec
                rest = [x for x in pending if x not in seen]
                if not rest:
                    break
                # the first case without a record killed the process
                culprit = rest[0]
                by_id[culprit].runrec[tag] = {"case": culprit, "phases": [], "facts": {}, "panic": None,
                                              "crash": "process died (rc=%s) while running this case" % rc}
                pending = rest[1:]

        by_id = {c.id: c for c in self.cases}
        with concurrent.futures.ThreadPoolExecutor(max_workers=NCPU) as ex:
            list(ex.map(run_shard, self.shards))


# ---------------------------------------------------------------------------
# verdicts, known findings, evidence
# ---------------------------------------------------------------------------

def load_known():
    p = VERIF / "known_findings.json"
    if not p.exists():
        return {"findings": [], "fixed": []}
    return json.loads(p.read_text())


class Report:
    def __init__(self, prop, tier, seed):
        self.prop = prop
        self.tier = tier
        self.seed = seed
        self.t0 = time.time()
        self.violations = []       # dicts: case, what, key, detail
        self.known_hits = []
        self.evaluations = 0
        self.nontrivial = set()
        self.samples = []
        self.extra = {"client_edition": os.environ.get("VERIF_EDITION", "2021")}
        self.assumptions = []
        self.rule = ""
        self.exhaustive = None
        self.known = [f for f in load_known().get("findings", []) if f["property"] == prop]

    def count(self, case_sig, nontrivial):
        self.evaluations += 1
        if nontrivial:
            self.nontrivial.add(case_sig)

    def bump(self, key, n=1):
        self.extra[key] = self.extra.get(key, 0) + n

    def bucket(self, name, key):
        b = self.extra.setdefault(name, {})
        b[key] = b.get(key, 0) + 1

    def sample(self, obj, limit=4):
        if len(self.samples) < limit:
            self.samples.append(obj)

    def violation(self, case_id, key, what, detail=None, pinned=None):
        """key: stable signature of the failure (used to match known findings, which
        only ever apply to pinned cases)."""
        for f in self.known:
            if pinned is not None and f.get("pinned") == pinned and re.search(f["signature"], key):
                self.known_hits.append((f, case_id))
                return
        self.violations.append({"case": case_id, "key": key, "what": what, "detail": detail})

    def finish(self, cases_by_id=None):
        wall = time.time() - self.t0
        rep_dir = WORK / "replay"
        rep_dir.mkdir(parents=True, exist_ok=True)
        for old in rep_dir.glob("%s_%s_%s_*.json" % (self.prop, self.tier, self.seed)):
            old.unlink()
        seen_f = set()
        for f, cid in self.known_hits:
            if f["id"] in seen_f:
                continue
            seen_f.add(f["id"])
            print("KNOWN-FINDING: property=%s %s [%s]" % (self.prop, f["what"], f["id"]))
        # one representative of every distinct failure key first
        firsts, rest, seen_k = [], [], set()
        for v in self.violations:
            (rest if v["key"] in seen_k else firsts).append(v)
            seen_k.add(v["key"])
        self.violations = firsts + rest
        for i, v in enumerate(self.violations[:50]):
            path = rep_dir / ("%s_%s_%s_%d.json" % (self.prop, self.tier, self.seed, i))
            body = dict(v)
            c = (cases_by_id or {}).get(v["case"])
            if c is not None:
                body["source"] = c.src
                body["meta"] = c.meta
                body["records"] = [{k: r.get(k) for k in ("variant", "line", "status", "panic")} |
                                   {"attr": fmt_tokens(r.get("attr")), "input": fmt_tokens(r.get("input")),
                                    "output": fmt_tokens(r.get("output"))} for r in c.records[:6]]
                body["diags"] = c.diags[:6] or (c.removed or {}).get("diags")
                body["run"] = c.runrec
            path.write_text(json.dumps(body, indent=1, default=str))
            print("VIOLATION property=%s replay=%s" % (self.prop, path))
            log("  -> %s: %s" % (v["case"], v["what"]))
        if self.violations:
            hist = {}
            for v in self.violations:
                hist[v["key"]] = hist.get(v["key"], 0) + 1
            for k, n in sorted(hist.items(), key=lambda kv: -kv[1]):
                log("  %4d x %s" % (n, k))
        if len(self.violations) > 50:
            log("  (%d more violations not printed)" % (len(self.violations) - 50))
        cov = {
            "evaluations": self.evaluations,
            "distinct_nontrivial": len(self.nontrivial),
            "rule": self.rule,
            "samples": self.samples,
        }
        if self.exhaustive is not None:
            cov["exhaustive"] = self.exhaustive
        cov.update(self.extra)
        cov["known_findings_reproduced"] = sorted({f["id"] for f, _ in self.known_hits})
        ev = {
            "property_id": self.prop,
            "tier": self.tier,
            "seed": self.seed,
            "level": "exploration",
            "coverage": cov,
            "assumptions": self.assumptions,
            "wall_s": round(wall, 2),
            "violations": len(self.violations),
        }
        EVIDENCE.mkdir(exist_ok=True)
        (EVIDENCE / (self.prop + ".json")).write_text(json.dumps(ev, indent=1, default=str) + "\n")
        log("[%s %s seed=%s] evaluations=%d nontrivial=%d violations=%d known=%d wall=%.1fs" % (
            self.prop, self.tier, self.seed, self.evaluations, len(self.nontrivial), len(self.violations),
            len(seen_f), wall))
        return EXIT_VIOLATION if self.violations else EXIT_OK


def fmt_tokens(ts):
    if ts is None:
        return None
    from . import tok
    return tok.render(ts)


def floors(report, **mins):
    """Observation floors: a run that observed less is inconclusive, not green.
    Violations that were observed are reported in any case (a violated run is never turned into 'inconclusive')."""
    if report.violations:
        return
    for k, v in mins.items():
        have = report.extra.get(k, getattr(report, k, 0))
        if isinstance(have, (set, list, dict)):
            have = len(have)
        if have < v:
            raise Inconclusive("observation floor not met: %s=%s < %s" % (k, have, v))


def rng_for(prop, seed, salt=""):
    return random.Random("%s/%s/%s" % (prop, seed, salt))
