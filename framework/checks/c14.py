"""C14 - static delegation is zero-cost: no boxing, no dynamic dispatch, no allocation.
Oracle: differential allocation counts (counting global allocator, thread-local counter) of a call
chain through generated traits vs a twin chain of plain functions with identical bodies; recorder
scan of the generated tokens for `dyn` / `Box` / `Pin` / `alloc`; thorough: valgrind memcheck as an
independent allocation counter over the same binary."""
import os
import re
import subprocess
from .. import core, tok, selftest
from ..core import Case

PROP = "C14"
FORBIDDEN = {"dyn", "Box", "Pin", "alloc", "Rc", "Arc", "Vec", "String"}


def build_case(cid, rng):
    depth = rng.randint(1, 6)
    is_async = rng.random() < 0.5
    # signature variety carried by every link: an explicit lifetime with a borrowed argument, ?Send
    # the extra parameter every link carries: none, a borrowed argument with an explicit lifetime, or a type with nested /
    # several elided references
    extra = rng.choice([None, None, ("&'a str", "s.len() as u64", '"abc"'), ("&'a str", "s.len() as u64", '"abc"'),
                        ("&[&str]", "s.len() as u64", '&["a", "bc"][..]'), ("(&str, &str)", "(s.0.len() + s.1.len()) as u64", '("a", "bc")'),
                        ("&&str", "s.len() as u64", '&"abc"'), ("&::core::option::Option<&str>", "s.map(|x| x.len()).unwrap_or(0) as u64", '&::core::option::Option::Some("ab")'),
                        # references to trait objects (the user's own `dyn` is copied into the generated signatures; nothing else may appear)
                        ("&(dyn ::core::ops::Fn(u64) -> u64 + ::core::marker::Sync)", "s(2)", "&|v: u64| v + 1"),
                        ("&(dyn ::core::any::Any + ::core::marker::Sync)", "(s.type_id() == ::core::any::TypeId::of::<u8>()) as u64", "&7u8"),
                        ("&mut (dyn ::core::iter::Iterator<Item = u64> + ::core::marker::Send)", "s.next().unwrap_or(0)", "&mut (1u64..1000)"),
                        # function pointers over references (higher-ranked signatures)
                        ("fn(&u64) -> u64", "s(&2)", "|v: &u64| *v + 1"), ("for<'v> fn(&'v u64) -> &'v u64", "*s(&3)", "|v: &u64| v"),
                        # a callback taken as argument-position impl Trait: handed on by value through every link (no `&dyn Fn` hop)
                        ("impl Fn(u64) -> u64", "s(2)", "|v: u64| v + 1"), ("impl ::core::ops::Fn(u64) -> u64", "s(2)", "|v: u64| v + 1")])
    with_lt = bool(extra) and "'a" in extra[0]
    no_send = is_async and rng.random() < 0.25
    if is_async and extra and extra[0].startswith("impl "):
        no_send = True   # (a closure type that is not known to be Send: rustc's rule, not entrait's)
    G = "<'a>" if with_lt else ""
    SP = (", s: " + extra[0]) if extra else ""
    SA = ", s" if extra else ""
    ARG = (", " + extra[2]) if extra else ""
    LAST = ("*b + " + extra[1]) if extra else "*b"
    OPT = ", ?Send" if no_send else ""
    links = []   # kind per link
    gen1 = rng.random() < 0.35
    gen_used = []
    byval1 = rng.random() < 0.25
    byval_used = []
    hr1 = rng.random() < 0.25
    hr_used = []
    kinds = ["fn", "fn", "mod", "leaf_trait", "inversion", "concrete"] + (["impl_future"] if (is_async and (with_lt or not extra)) else [])
    L, GT = [], []
    aw = ".await" if is_async else ""
    asy = "async " if is_async else ""
    yld = " ::vrt::yield_once().await;" if is_async else ""
    for i in range(1, depth + 1):
        kind = rng.choice(kinds)
        last = i == depth
        if last and rng.random() < 0.2:
            kind = "no_deps"   # a leaf without any dependency (`no_deps`): it can only end a chain
        links.append(kind)
        nxt_trait = "L%d" % (i + 1)
        call_next_t = ("deps.l%d(*b + %d%s)%s" % (i + 1, i, SA, aw)) if not last else LAST
        call_next_g = ("g%d(deps, *b + %d%s)%s" % (i + 1, i, SA, aw)) if not last else LAST
        nbox = rng.randint(1, 3)
        boxes = " ".join("let b = ::std::boxed::Box::new(x + %d);" % k for k in range(nbox))
        # the first link may carry a type parameter of its own (lifted to the generated trait: `trait L1<T>`)
        # ... or, for an entraited trait, a type parameter of the method itself (it stays on the method)
        # (not for traits with a delegation target: an impl block lifts the type parameters of its fns to the trait, so a generic
        # method of the delegated trait cannot be implemented by a block - outside the class C07 states)
        gen_here = i == 1 and gen1 and kind in ("fn", "mod", "leaf_trait")
        TB = "T: ::core::convert::Into<u64> + ::core::marker::Send + 'static"
        Gi = (("<'a, %s>" % TB) if with_lt else ("<%s>" % TB)) if gen_here else G
        SPi = (", t: T" + SP) if gen_here else SP
        if gen_here:
            boxes = "let x = x + t.into(); " + boxes
            gen_used.append(True)
        # a statically delegated helper with a mock option (inert in this build) that returns `impl Iterator`
        use_iter = (not is_async) and rng.random() < 0.4 and kind != "no_deps"
        if use_iter:
            mock = rng.choice(["mockall", "mockall = true", "mock_api = It%dMock, unimock = true" % i, "mockall, export = false"])
            L.append("#[::entrait::entrait(pub It%d, %s)] /*@it%d*/\nfn it%d<D>(deps: &D, x: u64) -> impl ::core::iter::Iterator<Item = u64> { (0..(x %% 3)).map(|v| v * 2) }" % (i, mock, i, i))
            boxes_t = boxes + " let _e: u64 = deps.it%d(x).sum();" % i
            boxes_g = boxes + " let _e: u64 = it%d(deps, x).sum();" % i
        else:
            boxes_t = boxes_g = boxes
        body_t = "{ %s%s %s }" % (boxes_t, yld, call_next_t)
        body_g = "{ %s%s %s }" % (boxes_g, yld, call_next_g)
        bound = ("impl " + nxt_trait) if not last else "impl ::core::marker::Sized"
        if use_iter:
            bound = "(%s + It%d)" % (bound, i)
        # the first link may take its dependency by value (`deps: impl L2 + Copy`): the trait method then takes `self`
        byval_here = i == 1 and byval1 and kind in ("fn", "mod")
        AMP = "" if byval_here else "&"
        bound_i = bound
        if i == 1 and hr1 and kind in ("fn", "mod") and not byval_here:
            # a higher-ranked bound on the dependency of the first link
            bound_i = (bound[:-1] + " + for<'q> HB<'q>)") if bound.startswith("(") else ("(" + bound + " + for<'q> HB<'q>)")
            hr_used.append(True)
        if byval_here:
            extra_b = " + ::core::marker::Copy + ::core::marker::Send + ::core::marker::Sync"
            bound_i = (bound[:-1] + extra_b + ")") if bound.startswith("(") else ("(" + bound + extra_b + ")")
            byval_used.append(True)
        if kind == "no_deps":
            nd = rng.choice(["fn", "mod"])
            sig_nd = "%sfn l%d%s(x: u64%s) -> u64 %s" % (asy, i, G, SP, body_t)
            if nd == "fn":
                L.append("#[::entrait::entrait(pub L%d, no_deps%s)] /*@inv%d*/\n%s" % (i, OPT, i, sig_nd))
            else:
                L.append("#[::entrait::entrait(pub L%d, no_deps%s)] /*@inv%d*/\npub mod lm%d { use super::*; pub %s }" % (i, OPT, i, i, sig_nd))
        elif kind == "fn":
            L.append("#[::entrait::entrait(pub L%d%s)] /*@inv%d*/\n%sfn l%d%s(deps: %s%s, x: u64%s) -> u64 %s" % (i, OPT, i, asy, i, Gi, AMP, bound_i, SPi, body_t))
        elif kind == "mod":
            L.append("#[::entrait::entrait(pub L%d%s)] /*@inv%d*/\npub mod lm%d { use super::*; pub %sfn l%d%s(deps: %s%s, x: u64%s) -> u64 %s }" % (i, OPT, i, i, asy, i, Gi, AMP, bound_i, SPi, body_t))
        elif kind == "concrete":
            # concrete dependency: the generated leaf trait is itself entraited (nested expansion) for Impl<T>
            L.append("#[::entrait::entrait(pub L%d%s)] /*@inv%d*/\n%sfn l%d%s(deps: &App, x: u64%s) -> u64 { let deps2 = ::entrait::Impl::new(*deps); let deps = &deps2; %s%s %s }" % (
                i, OPT, i, asy, i, G, SP, boxes_t, yld, call_next_t))
        elif kind == "impl_future":
            # hand-desugared async method: `fn .. -> impl Future`, statically delegated to T
            fut = "impl ::core::future::Future<Output = u64>%s" % ("" if no_send else " + ::core::marker::Send")
            L.append("#[::entrait::entrait(delegate_by = Self%s)] /*@inv%d*/\npub trait L%d { fn l%d%s(&self, x: u64%s) -> %s; }" % (OPT, i, i, i, G, SP, fut))
            L.append("impl L%d for App { fn l%d%s(&self, x: u64%s) -> %s { async move { let deps = ::entrait::Impl::new(App); let deps = &deps; %s%s %s } } }" % (
                i, i, G, SP, fut, boxes_t, yld, call_next_t))
        elif kind == "leaf_trait":
            # hand-written trait, static delegation to T (= the app itself implements it)
            L.append("#[::entrait::entrait(delegate_by = Self%s)] /*@inv%d*/\npub trait L%d { %sfn l%d%s(&self, x: u64%s) -> u64; }" % (OPT, i, i, asy, i, Gi, SPi))
            # the app's implementation needs the rest of the chain through Impl<App>: provide it on App via a free fn on a fresh Impl
            L.append("impl L%d for App { %sfn l%d%s(&self, x: u64%s) -> u64 { let deps = ::entrait::Impl::new(App); let deps = &deps; %s%s %s } }" % (
                i, asy, i, Gi, SPi, boxes_t, yld, call_next_t))
        else:
            L.append("#[::entrait::entrait(L%dImpl, delegate_by = DelegateL%d%s)] /*@inv%d*/\npub trait L%d { %sfn l%d%s(&self, x: u64%s) -> u64; }" % (i, i, OPT, i, i, asy, i, Gi, SPi))
            L.append("pub struct T%d;\n#[::entrait::entrait] /*@blk%d*/\nimpl L%dImpl for T%d { pub %sfn l%d%s(deps: &%s, x: u64%s) -> u64 %s }" % (i, i, i, i, asy, i, Gi, bound, SPi, body_t))
            L.append("impl DelegateL%d<Self> for App { type Target = T%d; }" % (i, i))
        if kind in ("leaf_trait", "concrete", "impl_future"):
            GT.append("%sfn g%d<%s%sD>(deps: &D, x: u64%s) -> u64 { let deps2 = ::entrait::Impl::new(App); let deps = &deps2; %s%s %s }" % (asy, i, "'a, " if with_lt else "", (TB + ", ") if gen_here else "", SPi, boxes_g, yld, call_next_g))
        else:
            GT.append("%sfn g%d<%s%sD>(deps: &D, x: u64%s) -> u64 %s" % (asy, i, "'a, " if with_lt else "", (TB + ", ") if gen_here else "", SPi, body_g))
    wrap = (lambda c: "::vrt::block_on(%s)" % c) if is_async else (lambda c: c)
    if gen_used:
        ARG = ", 7u8" + ARG
    HBDEF = ["pub trait HB<'q> { fn hb(&self) -> &'q str; }", "impl<'q, T> HB<'q> for ::entrait::Impl<T> { fn hb(&self) -> &'q str { \"\" } }"] if hr_used else []
    # a third of the cases also carry an entraited trait whose methods take the receiver by value (round 19): the delegation goes
    # through Impl::into_inner there; measured against the direct call on the application and scanned like every other expansion
    byv = rng.random() < 0.34
    BYV = ["#[::entrait::entrait] /*@invbv*/\npub trait ByV: ::core::marker::Send { async fn bv(self, x: u64) -> u64; fn bs(self, x: u64) -> u64; }",
           "impl ByV for App { async fn bv(self, x: u64) -> u64 { let b = ::std::boxed::Box::new(x); ::vrt::yield_once().await; *b + 1 } fn bs(self, x: u64) -> u64 { *::std::boxed::Box::new(x) + 2 } }"] if byv else []
    BYV_RUN = ["    ::vrt::trace_enabled(false);",
               "    let b0 = ::vrt::allocs();",
               "    let q1 = ::vrt::block_on(ByV::bv(app, 5)) + ByV::bs(app, 5);",
               "    let b1 = ::vrt::allocs();",
               "    let q2 = ::vrt::block_on(ByV::bv(App, 5)) + ByV::bs(App, 5);",
               "    let b2 = ::vrt::allocs();",
               "    ::vrt::trace_enabled(true);",
               '    ::vrt::fact("byval_trait_allocs", b1 - b0); ::vrt::fact("byval_direct_allocs", b2 - b1); ::vrt::fact("byval_trait_result", q1); ::vrt::fact("byval_direct_result", q2);'] if byv else []
    D = ["#[derive(Clone, Copy)] pub struct App;"] + HBDEF + L + BYV + GT + ["pub fn run() {",
         "    let app = ::entrait::Impl::new(App);",
         "    match ::std::env::var(\"C14_MODE\").ok().as_deref() {",
         "        Some(\"none\") => return,",
         "        Some(\"direct\") => { for _ in 0..10 { let _ = %s; } return; }" % wrap("g1(&app, 1%s)" % ARG),
         "        Some(\"trait\") => { for _ in 0..10 { let _ = %s; } return; }" % wrap("app.l1(1%s)" % ARG),
         "        _ => {}",
         "    }",
         "    ::vrt::trace_enabled(false);",
         "    let a0 = ::vrt::allocs();",
         "    let r1 = %s;" % wrap("app.l1(1%s)" % ARG),
         "    let a1 = ::vrt::allocs();",
         "    let r2 = %s;" % wrap("g1(&app, 1%s)" % ARG),
         "    let a2 = ::vrt::allocs();",
         "    let r3 = %s;" % wrap("app.l1(1%s)" % ARG),
         "    let a3 = ::vrt::allocs();",
         "    ::vrt::trace_enabled(true);",
         '    ::vrt::fact("trait_allocs", a1 - a0); ::vrt::fact("direct_allocs", a2 - a1); ::vrt::fact("trait_allocs_again", a3 - a2);',
         '    ::vrt::fact("trait_result", r1); ::vrt::fact("direct_result", r2);'] + BYV_RUN + [
         "}"]
    return Case(cid, "\n".join(D) + "\n", meta={"depth": depth, "async": is_async, "links": links, "explicit_lifetime": with_lt, "extra_param": (extra[0] if extra else None), "generic_first_link": bool(gen_used), "by_value_first_link": bool(byval_used), "higher_ranked_bound": bool(hr_used), "no_send": no_send,
                                                "nontrivial": is_async or depth >= 2})


def generated_tokens(r):
    inp, out = r["input"], r["output"]
    k = tok.item_kind(inp)["kind"]
    if k == "fn":
        return out[len(inp):]
    if k == "mod":
        bi = tok.find_brace(inp)
        return out[bi]["s"][len(inp[bi]["s"]):] + out[bi + 1:]
    if k == "impl":
        items = tok.split_items(out)
        return [t for it in items[1:] for t in it]
    return out   # trait: the user's trait in this corpus contains none of the forbidden names


def valgrind_allocs(exe, mode):
    env = dict(os.environ)
    env.update({"C14_MODE": mode, "VRT_OUT": "/dev/null"})
    p = subprocess.run(["valgrind", "--tool=memcheck", "--leak-check=no", "-q", "--trace-children=no", "-s", exe],
                       env=env, stdout=subprocess.PIPE, stderr=subprocess.PIPE, text=True, timeout=1200)
    m = re.search(r"total heap usage: ([\d,]+) allocs", p.stderr)
    if not m:
        p = subprocess.run(["valgrind", "--tool=memcheck", "--leak-check=no", exe], env=env, stdout=subprocess.PIPE, stderr=subprocess.PIPE, text=True, timeout=1200)
        m = re.search(r"total heap usage: ([\d,]+) allocs", p.stderr)
    if not m:
        raise core.Inconclusive("valgrind gave no heap summary: %s" % p.stderr[-400:])
    return int(m.group(1).replace(",", ""))


def run(tier, seed):
    rep = core.Report(PROP, tier, seed)
    rep.rule = ("call chains of depth 1-6 whose links are entraited fns, module fns, leaf traits (delegate_by = Self) and static impl "
                "blocks (delegate_by = DelegateX), sync and async (futures driven on the stack), every body allocating 1-3 boxes; the same "
                "chain as plain generic fns is the twin; allocation counts (and results) must be equal, measured twice; recorder scan of "
                "generated tokens for dyn/Box/Pin/alloc. non-trivial = async or depth >= 2")
    n = 200 if tier == "quick" else 2000
    rng = core.rng_for(PROP, seed)
    cases = [build_case("c14_%04d" % i, rng) for i in range(n)]
    st = selftest.case("selftest_c14")
    ws = core.Workspace(PROP, "x")
    ws.extend(cases + [st])
    ws.write()
    b = ws.build()
    ws.run(b["exes"])
    selftest.verify(st)
    for c in cases:
        if c.removed is not None:
            d = (c.removed["diags"] or [{}])[0]
            rep.violation(c.id, "compile:%s" % d.get("code"), "does not compile: %s" % d.get("message", "")[:300])
            continue
        rec = c.runrec.get("bin")
        if not rec or rec.get("panic") or rec.get("crash"):
            raise core.Inconclusive("no run record for %s: %s" % (c.id, rec))
        f = rec["facts"]
        if int(f["direct_allocs"]) < c.meta["depth"]:
            raise core.Inconclusive("twin chain of %s allocated less than expected (%s)" % (c.id, f))
        if f["trait_result"] != f["direct_result"]:
            rep.violation(c.id, "result-differs", "chain through traits returns %s, twin returns %s" % (f["trait_result"], f["direct_result"]))
        if f["trait_allocs"] != f["direct_allocs"] or f["trait_allocs_again"] != f["direct_allocs"]:
            rep.violation(c.id, "allocations:%+d" % (int(f["trait_allocs"]) - int(f["direct_allocs"])),
                          "calling through the generated traits performs %s (%s) heap allocations, the twin chain of plain fns %s (links %s, async %s)" % (
                              f["trait_allocs"], f["trait_allocs_again"], f["direct_allocs"], c.meta["links"], c.meta["async"]))
        if "byval_direct_allocs" in f:
            if int(f["byval_direct_allocs"]) < 2:
                raise core.Inconclusive("direct by-value calls of %s allocated less than expected (%s)" % (c.id, f))
            rep.bump("by_value_receivers_compared")
            if f["byval_trait_allocs"] != f["byval_direct_allocs"] or f["byval_trait_result"] != f["byval_direct_result"]:
                rep.violation(c.id, "by-value-receiver:allocations:%+d" % (int(f["byval_trait_allocs"]) - int(f["byval_direct_allocs"])),
                              "methods taking `self` by value called through Impl<App> perform %s heap allocations (result %s), called on App %s (result %s)" % (
                                  f["byval_trait_allocs"], f["byval_trait_result"], f["byval_direct_allocs"], f["byval_direct_result"]))
        rep.bump("chains_compared")
        rep.bump("allocations_observed", int(f["direct_allocs"]))
        for r in c.records:
            if r["status"] != "end":
                continue
            ids = set(tok.idents(generated_tokens(r)))
            bad = ids & (FORBIDDEN - ({"dyn"} if "dyn " in (c.meta.get("extra_param") or "") else set()))
            rep.bump("expansions_scanned")
            if bad:
                rep.violation(c.id, "forbidden-token:" + ",".join(sorted(bad)), "statically delegating expansion contains %s" % sorted(bad))
        for l in c.meta["links"]:
            rep.bucket("links", l)
        rep.bucket("depth", str(c.meta["depth"]))
        rep.bucket("signature", ("async" if c.meta["async"] else "sync") + ("+<'a>" if c.meta["explicit_lifetime"] else "") + ("+?Send" if c.meta["no_send"] else ""))
        rep.count(c.sig(), c.meta["nontrivial"])
        rep.sample({"case": c.id, "links": c.meta["links"], "async": c.meta["async"], "facts": f}, limit=4)
    if tier != "quick":
        # independent counter: valgrind's heap summary over the same binaries
        exes = sorted(b["exes"].items())[:4]
        for name, exe in exes:
            base = valgrind_allocs(exe, "none")
            d = valgrind_allocs(exe, "direct") - base
            t = valgrind_allocs(exe, "trait") - base
            rep.extra.setdefault("valgrind", []).append({"shard": name, "baseline": base, "direct_delta": d, "trait_delta": t})
            if d <= 0:
                raise core.Inconclusive("valgrind saw no allocations in the direct workload of %s" % name)
            if d != t:
                rep.violation(name, "valgrind-allocations:%+d" % (t - d), "valgrind counts %d allocations for the trait workload, %d for the twin workload" % (t, d))
    core.floors(rep, chains_compared=n // 2, expansions_scanned=n, by_value_receivers_compared=n // 8)
    rep.assumptions = ["the counting allocator's counter is thread-local and tracing is switched off inside the measured region",
                       "debug (unoptimised) builds: equality of counts does not depend on inlining"]
    return rep.finish({c.id: c for c in cases})
