"""C05 - concrete-dependency functions yield a leaf trait any application can adopt.
Oracle: differential (fn on &C  vs  trait on C / Impl<C> / Impl<App> with a hand-written adoption)
+ availability model + the nested entrait attribute on the recorded trait."""
from .. import core, tok, selftest
from ..core import Case
from ..gen.fns import Param, TYPES, SUPPORT, PLAIN_NAMES
from ..gen import traits as tg

PROP = "C05"

SHAPES = {
    # key: (type text fn(cid), constructor expr fn(tagname), name accessor on `deps`)
    "ident": (lambda cid: "Cfg", lambda n: 'Cfg { name: "%s", id: 7 }' % n, "deps.name"),
    "self_path": (lambda cid: "self::Cfg", lambda n: 'Cfg { name: "%s", id: 7 }' % n, "deps.name"),
    "crate_path": (lambda cid: "crate::%s::Cfg" % cid, lambda n: 'Cfg { name: "%s", id: 7 }' % n, "deps.name"),
    "generic_inst": (lambda cid: "Gen<u8>", lambda n: 'Gen { name: "%s", t: 3u8 }' % n, "deps.name"),
    "generic_inst2": (lambda cid: "self::Gen<(u8, i8)>", lambda n: 'Gen { name: "%s", t: (3u8, 4i8) }' % n, "deps.name"),
    "abs_path": (lambda cid: "::vrt::ExtCfg", lambda n: '::vrt::ExtCfg { name: "%s", id: 7 }' % n, "deps.name"),
    # the concrete dependency is itself an application layer (`Impl<Cfg>`): a leaf like any other - `Impl<Impl<Cfg>>` and a
    # downstream `Impl<App>` adopt it through the same forwarding impl
    "impl_layer": (lambda cid: "::entrait::Impl<Cfg>", lambda n: '::entrait::Impl::new(Cfg { name: "%s", id: 7 })' % n, "deps.name"),
    "tuple": (lambda cid: "(u8, Cfg)", lambda n: '(1u8, Cfg { name: "%s", id: 7 })' % n, "deps.1.name"),
    "array": (lambda cid: "[Cfg; 2]", lambda n: '[Cfg { name: "%s", id: 7 }, Cfg { name: "other", id: 8 }]' % n, "deps[0].name"),
}

DEFS = """#[derive(Clone, Copy, Debug)] pub struct Cfg { pub name: &'static str, pub id: u32 }
#[derive(Clone, Copy, Debug)] pub struct Gen<T> { pub name: &'static str, pub t: T }
pub struct NoTrait;
"""


def build_case(cid, rng):
    shape = rng.choice(sorted(SHAPES))
    ty_f, ctor_f, name_acc = SHAPES[shape]
    cty = ty_f(cid)
    # (no lifted type parameter on top of an `Impl<..>` dependency: with `trait Subj<M>` the direct impl for `Impl<Cfg>` and the
    # forwarding impl for `Impl<T: Subj<M>>` overlap in rustc's eyes - a downstream crate could implement `Subj<Theirs>` for `Cfg`)
    m = tg.random_method(rng, "subj", allow_async=True, allow_generic=(rng.random() < 0.5 and shape != "impl_layer"), max_arity=4)
    if shape == "impl_layer":
        m.mconst, m.extra_tparam = None, False
        m.params = [p_ for p_ in m.params if p_.generic != "[u8; KM]"]
    if m.mconst:
        # (the hand-written adoption below names the lifted type parameter only)
        m.mconst = None
        m.params = [p_ for p_ in m.params if p_.generic != "[u8; KM]"]
    # a generic (non-deps) type parameter of the fn is lifted to the leaf trait: `trait Subj<M>`
    targs = "<i32>" if m.mgenerics else ""
    impl_g = ("<" + ", ".join("%s: %s" % (n_, " + ".join(b_)) for n_, b_ in m.mgenerics) + ">") if m.mgenerics else ""
    targs_g = ("<" + ", ".join(n_ for n_, _b in m.mgenerics) + ">") if m.mgenerics else ""
    byval = rng.random() < 0.15
    static_lt = (not byval) and rng.random() < 0.15      # `deps: &'static C`: a lifetime the fn does not declare
    explicit_lt = (not byval) and (not static_lt) and rng.random() < 0.3
    if m.ret == "borrow_self":
        if byval:
            m.ret = "owned"
        elif explicit_lt or m.self_lt:
            m.self_lt = "'a"
            explicit_lt = True
            if "'a" not in m.lifetimes:
                m.lifetimes.insert(0, "'a")
    elif explicit_lt:
        m.lifetimes.insert(0, "'a")
    if static_lt:
        explicit_lt = False
        m.lifetimes = [l for l in m.lifetimes if l != "'a"]
        if m.ret == "borrow_self":
            m.self_lt = "'static"
    lt = "'a " if explicit_lt else ("'static " if static_lt else "")
    dty = cty if byval else "&%s%s" % (lt, cty)
    # lifetime relations written as where-predicates (kept on the method, never lifted to the trait)
    where = ""
    if explicit_lt and rng.random() < 0.6:
        if "'b" not in m.lifetimes:
            m.lifetimes.append("'b")
            m.params.append(Param(TYPES["str"], "plain", ["zz"], generic="&'b str"))
        where = " where 'b: 'a"
    # (a mock derivation without `export` is gated by cfg(test): inert in this build, and it must not change the leaf trait's impls)
    opts = rng.choice([[], [], ["?Send"] if False else [], ["export"], ["mockall = false"], ["unimock = false"], ["debug = false"],
                       ["mockall"], ["mockall = true"], ["mock_api = SubjMock", "unimock = true"]])
    L = [DEFS] + tg.support_for([m])
    L.append("#[::entrait::entrait(%s)] /*@inv*/" % ", ".join(["pub Subj"] + opts))
    g = m.generics_text()
    g_lt = ("<" + ", ".join(m.lifetimes) + ">") if m.lifetimes else ""
    ps = ["deps: " + dty] + [p.decl() for p in m.params]
    fid = "%s::subj" % cid
    depexpr = "&deps" if byval else "deps"
    body = m.body(fid, depexpr, name_expr=name_acc)
    vis = rng.choice(["", "pub ", "pub(crate) "])
    fn_text = "%s%sfn subj%s(%s)%s%s %s" % (vis, "async " if m.is_async else "", g, ", ".join(ps), m.ret_text(), where, body)
    # the fn may be stamped out by macro_rules!, with the name of the dependency parameter and / or its type supplied by the
    # invocation (`$d:ident`: call-site hygiene; `$t:ty`: the type arrives wrapped in a None-delimited group)
    wrap_mode = rng.choice(["none"] * 6 + ["ident", "ty", "both", "refty"])
    if wrap_mode != "none" and "$" not in fn_text and shape in SHAPES:
        import re as _re
        matcher, args = [], []
        if wrap_mode in ("ident", "both"):
            fn_text = _re.sub(r"\bdeps\b", "$d", fn_text)
            matcher.append("$d:ident")
            args.append("deps")
        if wrap_mode in ("ty", "both"):
            fn_text = fn_text.replace(": " + dty, ": " + dty.replace(cty, "$t"), 1)
            matcher.append("$t:ty")
            args.append(cty)
        if wrap_mode == "refty":
            # the whole parameter type, reference included, is one `ty` fragment
            fn_text = fn_text.replace(": " + dty, ": $t", 1)
            matcher.append("$t:ty")
            args.append(dty)
        inv = L.pop()
        L.append("macro_rules! make_leaf {\n    (%s) => {\n        %s\n        %s\n    };\n}\nmake_leaf!(%s);" % (
            ", ".join(matcher), inv, fn_text.replace("\n", "\n        "), ", ".join(args)))
    else:
        wrap_mode = "none"
        L.append(fn_text)
    # hand-written adoption by a downstream App
    recv = "self" if byval else ("&%sself" % lt)
    call = "self.cfg.subj(%s)%s" % (", ".join(p.names[0] if p.form == "plain" else "__w%d" % i for i, p in enumerate(m.params)), ".await" if m.is_async else "")
    aps = [recv] + [("%s: %s" % (p.names[0] if p.form == "plain" else "__w%d" % i, p.type_text())) for i, p in enumerate(m.params)]
    # half of the adopting applications are `Sync` but not `Send` (the forwarding impl asks `Sync + 'static` of `T`, nothing more;
    # an async leaf that takes the application by value is left out: its future really holds the application)
    not_send = rng.random() < 0.5 and not (byval and m.is_async)
    L.append("#[derive(Clone, Copy)] pub struct App { pub pad: u64, pub cfg: %s%s }" % (cty, ", pub ns: ::core::marker::PhantomData<::std::sync::MutexGuard<'static, ()>>" if not_send else ""))
    L.append("impl%s Subj%s for App { %sfn subj%s(%s)%s%s { ::vrt::recursion_guard(|| ()); %s } }" % (
        impl_g, targs_g, "async " if m.is_async else "", g_lt, ", ".join(aps), m.ret_text(), where, call))
    D = ["pub fn run() {"]
    D.append('    ::vrt::fact("impl_notrait", ::vrt::implements!(::entrait::Impl<NoTrait>: Subj%s));' % targs)
    D.append('    ::vrt::fact("bare_notrait", ::vrt::implements!(NoTrait: Subj%s));' % targs)
    D.append('    ::vrt::fact("impl_c", ::vrt::implements!(::entrait::Impl<%s>: Subj%s));' % (cty, targs))
    D.append('    ::vrt::fact("bare_c", ::vrt::implements!(%s: Subj%s));' % (cty, targs))
    D.append('    ::vrt::fact("impl_app", ::vrt::implements!(::entrait::Impl<App>: Subj%s));' % targs)
    D.append('    ::vrt::fact("c_tn", ::vrt::tn_of::<%s>());' % cty)
    wrap = (lambda c: "::vrt::block_on(%s)" % c) if m.is_async else (lambda c: c)
    calls = []
    variants = [("direct", "let c = %s;" % ctor_f("direct"), "&c", lambda a: "subj(%s)" % ", ".join([("c" if byval else "&c")] + a)),
                ("on_c", "let c = %s;" % ctor_f("on_c"), "&c", lambda a: "c.subj(%s)" % ", ".join(a)),
                ("on_impl_c", "let c = ::entrait::Impl::new(%s);" % ctor_f("on_impl_c"), "&*c", lambda a: "c.subj(%s)" % ", ".join(a)),
                ("on_impl_app", "let c = ::entrait::Impl::new(App { pad: 1, cfg: %s%s });" % (ctor_f("on_impl_app"), ", ns: ::core::marker::PhantomData" if not_send else ""), "&c.cfg", lambda a: "c.subj(%s)" % ", ".join(a))]
    if static_lt:
        variants = [("direct", "let c: &'static %s = ::std::boxed::Box::leak(::std::boxed::Box::new(%s));" % (cty, ctor_f("direct")), "c", lambda a: "subj(%s)" % ", ".join(["c"] + a)),
                    ("on_c", "let c: &'static %s = ::std::boxed::Box::leak(::std::boxed::Box::new(%s));" % (cty, ctor_f("on_c")), "c", lambda a: "c.subj(%s)" % ", ".join(a)),
                    ("on_impl_c", "let c: &'static ::entrait::Impl<%s> = ::std::boxed::Box::leak(::std::boxed::Box::new(::entrait::Impl::new(%s)));" % (cty, ctor_f("on_impl_c")), "&**c", lambda a: "c.subj(%s)" % ", ".join(a)),
                    ("on_impl_app", "let c: &'static ::entrait::Impl<App> = ::std::boxed::Box::leak(::std::boxed::Box::new(::entrait::Impl::new(App { pad: 1, cfg: %s%s })));" % (ctor_f("on_impl_app"), ", ns: ::core::marker::PhantomData" if not_send else ""), "&c.cfg", lambda a: "c.subj(%s)" % ", ".join(a))]
    for vi, (lab, setup, addr_of, callf) in enumerate(variants):
        s1, e1, d1 = m.call_args(1, "v%d" % vi)
        D.append("    {")
        D.append("        " + setup)
        D.append('        ::vrt::phase("%s"); ::vrt::kv("want_addr", ::vrt::addr(%s));' % (lab, addr_of))
        D += ["        " + s for s in s1]
        D.append('        let r = %s; ::vrt::result(&r); ::vrt::kv("rtn", ::vrt::tn(&r)); ::vrt::record_polls();' % wrap(callf(e1)))
        D.append("    }")
        args = d1
    D.append("}")
    nt = shape != "ident" or m.is_async or m.ret == "borrow_self"
    meta = {"macro_rules": wrap_mode, "shape": shape, "byval": byval, "static_lifetime": static_lt, "async": m.is_async, "ret": m.ret, "fn": fid, "args": args, "nontrivial": nt,
            "sig": "%s(%s)%s" % ("async " if m.is_async else "", ", ".join(ps), m.ret_text())}
    return Case(cid, "\n".join(L + D) + "\n", meta=meta)


def check_case(c, rep, pinned=None):
    m = c.meta
    if c.removed is not None:
        d = (c.removed["diags"] or [{}])[0]
        rep.violation(c.id, "compile:%s:%s" % (d.get("code"), d.get("message", "")[:70]), "does not compile: %s" % d.get("message", "")[:300], pinned=pinned)
        return
    rec = c.runrec.get("bin")
    if not rec:
        raise core.Inconclusive("no run record for %s" % c.id)
    if rec.get("crash") or rec.get("panic"):
        rep.violation(c.id, "crash-or-panic", "case died (recursion?): %s" % (rec.get("crash") or rec.get("panic"))[:300], pinned=pinned)
        return
    f = rec["facts"]
    model = {"impl_notrait": "false", "bare_notrait": "false", "impl_c": "true", "bare_c": "true", "impl_app": "true"}
    for k, want in model.items():
        rep.bump("availability_probes")
        if f.get(k) != want:
            rep.violation(c.id, "availability:%s=%s" % (k, f.get(k)), "probe %s = %s, model says %s" % (k, f.get(k), want), pinned=pinned)
    ph = {p["label"]: p for p in rec["phases"]}
    d = ph["direct"]
    for lab in ("direct", "on_c", "on_impl_c", "on_impl_app"):
        p = ph[lab]
        evs = p["events"]
        bad = None
        if len(evs) != 1:
            bad = "function ran %d times" % len(evs)
        else:
            e = evs[0]
            if e["fn"] != m["fn"]:
                bad = "reached %s" % e["fn"]
            elif e["tn"] != f["c_tn"]:
                bad = "dependency type %s, expected %s" % (e["tn"], f["c_tn"])
            elif not m["byval"] and str(e["addr"]) != p["kv"]["want_addr"]:
                bad = "dependency address %s, expected %s" % (e["addr"], p["kv"]["want_addr"])
            elif e["args"] != m["args"]:
                bad = "arguments %s, expected %s" % (e["args"], m["args"])
        if bad and lab == "direct":
            raise core.Inconclusive("harness: direct call of %s off: %s" % (c.id, bad))
        if bad:
            rep.violation(c.id, "%s:%s" % (lab, bad.split(",")[0][:40]), "%s: %s" % (lab, bad), {"phase": p}, pinned=pinned)
            continue
        expect_res = d["result"]
        if m["ret"] == "borrow_self":
            expect_res = '"%s"' % lab
        if p["result"] != expect_res or p["kv"]["rtn"] != d["kv"]["rtn"]:
            rep.violation(c.id, "%s:result" % lab, "%s returned %s (%s), fn returns %s (%s)" % (lab, p["result"], p["kv"]["rtn"], expect_res, d["kv"]["rtn"]), pinned=pinned)
            continue
        if m["async"] and int(p["kv"]["polls"]) < 2:
            raise core.Inconclusive("async fn did not suspend in %s" % c.id)
        rep.bump("calls_compared")
    # (R) nested entrait attribute on the generated trait
    recs = [r for r in c.records if r["status"] == "end"]
    top = [r for r in recs if tok.item_kind(r["input"])["kind"] == "fn"]
    if not top:
        raise core.Inconclusive("no fn record for %s" % c.id)
    out = top[0]["output"]
    items = tok.split_items(out[len(top[0]["input"]):])
    tr = next((it for it in items if tok.item_kind(it)["kind"] == "trait"), None)
    attrs = [tok.render(a) for a in tok.item_kind(tr)["attrs"]] if tr else []
    if ":: entrait :: entrait ( unimock = false , mockall = false )" not in attrs:
        rep.violation(c.id, "nested-attr-missing", "generated leaf trait lacks the nested entrait attribute: %s" % attrs, pinned=pinned)
    nested = [r for r in recs if tok.item_kind(r["input"])["kind"] == "trait"]
    if len(nested) != 1:
        rep.violation(c.id, "nested-expansions:%d" % len(nested), "the generated trait was entraited %d times" % len(nested), pinned=pinned)
    rep.bucket("shapes", m["shape"] + ("/&'static" if m.get("static_lifetime") else ""))
    rep.bucket("stamped_by_macro_rules", m.get("macro_rules", "none"))
    rep.count(c.sig(), m["nontrivial"])
    rep.sample({"case": c.id, "shape": m["shape"], "sig": m["sig"], "facts": f, "on_impl_app": ph["on_impl_app"]}, limit=3)


KNOWN_PINS = [
    ("byval_noncopy", """pub struct St { pub name: ::std::string::String }
#[::entrait::entrait(pub Subj)] /*@inv*/
fn subj(deps: St, a: i32) -> i32 { a }
pub fn run() {}
"""),
    ("ref_to_ref", """#[::entrait::entrait(pub Subj)] /*@inv*/
fn subj(deps: &&'static str, a: i32) -> i32 { a }
pub fn run() {}
"""),
    ("lifetime_arg_of_concrete_type", """pub struct Ctx<'c>(pub &'c str);
#[::entrait::entrait(pub Subj)] /*@inv*/
fn subj<'c>(deps: &Ctx<'c>, a: i32) -> usize { deps.0.len() + a as usize }
pub fn run() {}
"""),
]


def run(tier, seed):
    rep = core.Report(PROP, tier, seed)
    rep.rule = ("random concrete-deps fns over type shapes {ident, self:: path, crate:: path, absolute ::krate:: path, generic instantiation, an Impl<..> layer, tuple, array}; a quarter of the fns stamped out by macro_rules! with the deps name / type supplied by the invocation x "
                "by-ref (elided / explicit lifetime) and by-value on Copy types x sync/async x owned/borrowed returns x 0-4 further args; "
                "calls on C, Impl<C>, Impl<App> (hand-written adoption forwarding to a field) compared with the fn on &C. "
                "non-trivial = shape other than a bare ident, async, or a return borrowed from the dependency")
    n = 300 if tier == "quick" else 3000
    rng = core.rng_for(PROP, seed)
    cases = [build_case("c05_%04d" % i, rng) for i in range(n)]
    pins = [Case("c05known_" + name, src, meta={"pin": name}) for name, src in KNOWN_PINS]
    st = selftest.case("selftest_c05")
    ws = core.Workspace(PROP, "x")
    # a concrete-deps fn that returns a future without being `async fn`: the leaf trait's Impl<T> forwarding has to reach the fn
    # when the method is *called* (the part of the body in front of the `async move` block), not when the future is polled
    # concrete types that borrow (`Ctx<'_>`, a tuple with a reference) over data that is not 'static: the leaf is implemented for
    # `C` itself, without any requirement on `C` beyond what the fn has
    def borrowing_case(cid, is_async):
        a, w = ("async ", lambda c: "::vrt::block_on(%s)" % c) if is_async else ("", lambda c: c)
        src = """pub struct Ctx<'a> { pub name: &'a str }
#[::entrait::entrait(pub Subj)] /*@inv*/
%sfn subj(ctx: &Ctx<'_>, k: usize) -> usize { ctx.name.len() * k }
#[::entrait::entrait(pub PairLen)]
%sfn pair_len(pair: &(&str, usize)) -> usize { pair.0.len() + pair.1 }
pub fn run() {
    let owned = ::std::string::String::from("local");
    let ctx = Ctx { name: &owned };
    ::vrt::phase("borrowing");
    ::vrt::kv("direct", %s); ::vrt::kv("on_c", %s);
    let pair = (&*owned, 3usize);
    ::vrt::kv("pair_direct", %s); ::vrt::kv("pair_on_c", %s);
}
""" % (a, a, w("subj(&ctx, 2)"), w("ctx.subj(2)"), w("pair_len(&pair)"), w("pair.pair_len()"))
        return Case(cid, src, meta={"family": "borrowing", "nontrivial": True})
    borrowing = [borrowing_case("c05b_0", False), borrowing_case("c05b_1", True)]
    # concrete dependency types that are not `Sized` (`str`, a slice, a trait object): a leaf like any other - implemented for the
    # type itself, and for `Impl<App>` of every application that adopts it by hand (there is no `Impl<str>`)
    UNSIZED = [("str", "deps.len()", "s: ::std::string::String", "self.s.as_str()", 's: ::std::string::String::from("abcd")', '"abcd"'),
               ("[u8]", "deps.len()", "s: ::std::vec::Vec<u8>", "self.s.as_slice()", "s: ::std::vec![1u8, 2, 3, 4]", "(&[1u8, 2, 3, 4][..])"),
               ("dyn Named", "deps.name().len()", "s: ::std::boxed::Box<dyn Named + ::core::marker::Send + ::core::marker::Sync>", "&*self.s as &dyn Named", "s: ::std::boxed::Box::new(N4)", "(&N4 as &dyn Named)"),
               ("(dyn Named + ::core::marker::Send + ::core::marker::Sync)", "deps.name().len()", "s: ::std::boxed::Box<dyn Named + ::core::marker::Send + ::core::marker::Sync>",
                "&*self.s", "s: ::std::boxed::Box::new(N4)", "(&N4 as &(dyn Named + ::core::marker::Send + ::core::marker::Sync))")]

    def unsized_case(cid, kind, is_async):
        ty, expr, field, access, init, val = UNSIZED[kind]
        a, w, aw = ("async ", lambda c: "::vrt::block_on(%s)" % c, ".await") if is_async else ("", lambda c: c, "")
        src = """pub trait Named { fn name(&self) -> ::std::string::String; }
pub struct N4; impl Named for N4 { fn name(&self) -> ::std::string::String { ::std::string::String::from("four") } }
#[::entrait::entrait(pub Subj)] /*@inv*/
%sfn subj(deps: &%s, k: usize) -> usize { ::vrt::enter("%s::subj", ::vrt::tn(deps), 0, &[&k as &dyn ::core::fmt::Debug]); %s * k }
#[::entrait::entrait(pub Next)]
%sfn next(deps: &impl Subj, k: usize) -> usize { deps.subj(k)%s + 1 }
pub struct App { pub %s }
impl Subj for App { %sfn subj(&self, k: usize) -> usize { (%s).subj(k)%s + 100 } }
pub struct NoTrait;
pub fn run() {
    ::vrt::fact("bare_c", ::vrt::implements!(%s: Subj));
    ::vrt::fact("impl_app", ::vrt::implements!(::entrait::Impl<App>: Subj));
    ::vrt::fact("impl_notrait", ::vrt::implements!(::entrait::Impl<NoTrait>: Subj));
    ::vrt::fact("bare_notrait", ::vrt::implements!(NoTrait: Subj));
    let app = ::entrait::Impl::new(App { %s });
    ::vrt::phase("unsized");
    ::vrt::kv("direct", %s); ::vrt::kv("on_c", %s);
    ::vrt::kv("on_impl_app", %s); ::vrt::kv("next_layer", %s);
}
""" % (a, ty, cid, expr, a, aw, field, a, access, aw, ty, init, w("subj(%s, 2)" % val), w("%s.subj(2)" % val),
       w("<::entrait::Impl<App> as Subj>::subj(&app, 2)"), w("app.next(2)"))
        return Case(cid, src, meta={"family": "unsized", "nontrivial": True, "kind": ty, "fn": "%s::subj" % cid})
    unsized = [unsized_case("c05u_%d%d" % (k, int(x)), k, x) for k in range(4) for x in (False, True) if not (x and k == 2)]
    from .c06 import eager_future_case, check_eager_future
    eager = [eager_future_case("c05e_%03d" % i, rng, shape="concrete_fn") for i in range(4)]
    ws.extend(cases + eager + borrowing + unsized + pins + [st])
    ws.write()
    b = ws.build()
    ws.run(b["exes"])
    selftest.verify(st)
    for c in cases:
        check_case(c, rep)
    for c in eager:
        check_eager_future(c, rep)
    for c in borrowing:
        if c.removed is not None:
            d = (c.removed["diags"] or [{}])[0]
            rep.violation(c.id, "borrowing:compile:%s" % d.get("code"), "a leaf over a borrowing concrete type cannot be used on a value that borrows local data: %s" % d.get("message", "")[:300])
            continue
        rec = c.runrec.get("bin") or {}
        kv = dict({p_["label"]: p_ for p_ in rec.get("phases", [])}.get("borrowing", {}).get("kv", {}))
        if kv != {"direct": "10", "on_c": "10", "pair_direct": "8", "pair_on_c": "8"}:
            rep.violation(c.id, "borrowing:behaviour", "results %s" % kv)
        else:
            rep.bump("borrowing_cases_ok")
        rep.count(c.sig(), True)
    for c in unsized:
        if c.removed is not None:
            d = (c.removed["diags"] or [{}])[0]
            rep.violation(c.id, "unsized:compile:%s" % d.get("code"), "a leaf over the unsized concrete type %s cannot be adopted / used as a bound: %s" % (c.meta["kind"], d.get("message", "")[:300]))
            continue
        rec = c.runrec.get("bin") or {}
        if rec.get("crash") or rec.get("panic"):
            rep.violation(c.id, "unsized:crash-or-panic", "case died: %s" % (rec.get("crash") or rec.get("panic"))[:300])
            continue
        ph = {p_["label"]: p_ for p_ in rec.get("phases", [])}.get("unsized", {})
        kv, f = dict(ph.get("kv", {})), rec.get("facts", {})
        evs = [e["fn"] for e in ph.get("events", [])]
        want_f = {"bare_c": "true", "impl_app": "true", "impl_notrait": "false", "bare_notrait": "false"}
        if {k_: f.get(k_) for k_ in want_f} != want_f:
            rep.violation(c.id, "unsized:availability", "probes %s, model says %s" % (f, want_f))
        elif kv != {"direct": "8", "on_c": "8", "on_impl_app": "108", "next_layer": "109"} or evs != [c.meta["fn"]] * 4:
            rep.violation(c.id, "unsized:behaviour", "results %s, fn reached %s" % (kv, evs))
        else:
            rep.bump("unsized_cases_ok")
        rep.count(c.sig(), True)
    for c in pins:
        if c.removed is not None:
            d = (c.removed["diags"] or [{}])[0]
            rep.violation(c.id, "compile:%s:%s" % (d.get("code"), d.get("message", "")[:70]), "does not compile: %s" % d.get("message", "")[:300], pinned=c.meta["pin"])
    core.floors(rep, calls_compared=3 * n, availability_probes=4 * n, unsized_cases_ok=len(unsized))
    return rep.finish({c.id: c for c in cases + eager + borrowing + unsized + pins})
