"""C15 - misuse yields a compile-time diagnostic; the macro never panics.
Channels: recorder (panic / missing end events, outputs re-parsed by the nightly parser) and the
compiler's diagnostic stream (pinned messages at pinned lines for the documented misuses)."""
import hashlib
import json
import subprocess
from .. import core, tok
from ..core import Case
from ..gen import expand_corpus

PROP = "C15"

ITEMS = {
    "fn": "fn target_fn<D>(deps: &D, a: i32) -> i32 { a }",
    "fn_nodeps": "fn target_nd(a: i32, b: i32) -> i32 { a + b }",
    "mod": "mod target_mod { pub fn inner<D>(deps: &D, a: i32) -> i32 { a } fn private() {} }",
    "trait": "trait TargetTrait { fn m(&self, a: i32) -> i32; async fn am(&self); }",
    "impl": "impl TargetImpl for Target { fn m(deps: &impl Sized, a: i32) -> i32 { a } }",
}

ATTR_ALPHABET = [
    "Foo", "pub", "pub(crate)", "pub(super)", "pub(in crate)", "crate", "no_deps", "debug = false", "export", "mock_api", "unimock", "mockall",
    "delegate_by", "?Send", "?Sync", "? Send", "Send", "ref", "dyn", "Self", "Borrow", "in", "super", "self", "true", "false",
    "nodeps", "no_deps2", "Export", "mockapi", "delegate", "delegate_by = ref", "delegate_by = Self", "delegate_by = Borrow",
    "delegate_by = DelegateFoo", "mock_api = FooMock", "mock_api = 1", "unimock = true", "unimock = false", "unimock = 2",
    "mockall = true", "mockall = maybe", "export = false", "no_deps = true", "no_deps = \"yes\"",
    "=", ",", ",", ",", "?", "::", "!", "1", "\"s\"", "'c'", "(a)", "[b]", "{c}", "<", ">", "'a", "#", "&", "-", ";", "..", "=>",
    "FooImpl", "r#ref", "r#Foo", "_", "$", "async", "fn", "trait", "impl", "mod", "where", "for",
]

PATTERNS = [
    "a: i32", "_: i32", "(a, b): (i32, i32)", "S { a }: S", "S { a, .. }: S", "[a, b]: [u8; 2]", "&a: &i32", "mut a: i32",
    "ref a: i32", "ref mut a: i32", "a @ _: i32", "a @ 1..=5: i32", "r#NAME: i32", "NAME: i32", "Some(x): Option<i32>", "1: i32",
    "-1: i32", "(_, _): (u8, u8)", "((a, b), c): ((u8, u8), u8)", "N(a, ..): N", "S { .. }: S", "(a | a): i32",
    "pat_macro!(): i32", "&mut a: &mut i32", "_x: i32", "r#type: i32", "NONE: Option<i32>", "E::A: E", "0..=9: u8",
    "arg1: i32", "_arg1: i32", "arg0: i32", "__impl: i32", "EntraitT: i32", "NAME_: i32", "x: impl Fn(i32) -> i32",
    "x: &dyn Fn()", "#[attr] a: i32", "#[cfg(any())] gone: i32", "(): ()", "[]: [u8; 0]", "[first, .., last]: [u8; 4]",
    "[first, rest @ ..]: [u8; 4]", "box_like: Box<i32>", "(a, b, c, d, e, f, g, h): (u8, u8, u8, u8, u8, u8, u8, u8)",
    "T(T(x)): T", "T(x, y): T", "T(None): T", "T(x, None): T",
]

SELF_FORMS = ["self", "&self", "&mut self", "mut self", "self: Box<Self>", "self: &Self", "&'a self", "self: ::std::rc::Rc<Self>"]

OTHER_ITEMS = [
    "struct St;", "struct St2 { a: u8 }", "enum En { A }", "const K: u8 = 1;", "static ST: u8 = 1;", "use ::core::fmt;",
    "type Ty = u8;", "extern \"C\" { fn ext(); }", "macro_rules! mr { () => {}; }", "union Un { a: u8 }", "mod out_of_line;",
    "impl Inherent { fn f(&self) {} }", "impl<T> GenImpl<T> for Vec<T> { fn f(d: &impl Sized) {} }", "impl !Send for Neg {}",
"trait Tr2 { const C: u8; }", "trait Tr3 { mac!(); }",
    "trait Tr4 { type A; type B: Clone; fn f(&self) -> Self::A; }", "unsafe trait UTr { fn f(&self); }", "auto trait ATr {}",
    "unsafe auto trait UATr {}", "pub(crate) trait Tr5<T: Clone, const N: usize>: Clone + Send where T: Sized { fn f(&self, t: T) -> [u8; N]; }",
    "trait Tr6 { fn no_self(a: i32); fn by_val(self); fn by_mut(&mut self); fn boxed(self: Box<Self>); }",
    "trait Tr7 { fn provided(&self, (a, b): (i32, i32)) -> i32 { a + b } }",
    "trait Tr8 { fn generic<T: Clone>(&self, t: T) -> T where T: Send; }",
    "trait Tr9<'a> { fn lt<'b>(&'a self, x: &'b str) -> &'b str; }",
    "extern crate core as c2;", "fn no_body();", "unsafe mod um {}", "auto mod am {}", "pub(crate) auto trait PAT {}",
    "default fn df() {}", "async mod asm {}", "const fn cf<D>(d: &D) {}", "const async unsafe extern \"C\" fn all_quals<D>(d: &D) {}",
    "fn variadic<D>(d: &D, ...) {}", "unsafe extern \"C\" fn cvar<D>(d: &D, mut args: ...) {}",
    "fn f_where<D>(d: &D) where {}", "fn many_lt<'a, 'b: 'a, 'c: 'a + 'b, D: 'a>(d: &'a D, x: &'b &'c str) -> &'a str { \"\" }",
    "fn q_path(d: &<X as Y>::Z) {}", "fn lead_colon(d: &::abs::Path) {}", "fn paren_ty(d: &(D)) {}", "fn ptr_ty(d: *const u8) {}",
    "fn slice_ty(d: &[u8]) {}", "fn never_ty(d: !) {}", "fn infer_ty(d: &_) {}", "fn fn_ty(d: fn() -> u8) {}", "fn dyn_ty(d: &dyn Tr) {}",
    "fn macro_ty(d: &ty_mac!()) {}", "fn tuple0(d: ()) {}", "fn ref_ref<D>(d: &&D) {}", "fn mut_ref<D>(d: &mut D) {}",
    "fn impl_q(d: &impl ?Sized) {}", "fn impl_lt<'a>(d: &(impl Clone + 'a)) {}", "fn generic_default<D, T = u8>(d: &D) {}",
    "mod empty {}", "mod only_private { fn f() {} }", "mod with_inner_attr { #![allow(unused)] pub fn f<D>(d: &D) {} }",
    "mod m_self { pub fn f(&self) {} }", "mod m_no_params { pub fn f() {} }", "mod m_dup { pub fn f<D>(d: &D) {} pub fn f<D>(d: &D) {} }",
    "impl Tr for X { fn no_params() {} }", "impl Tr for X { fn with_self(&self) {} }", "impl Tr for X {}",
    "impl Tr for X { fn a(d: &impl A) {} fn b<D: B>(d: &D) {} const C: u8 = 1; }", "impl<'a> Tr for &'a X { fn a(d: &impl Sized) {} }",
    "impl Tr for X where X: Sized { fn a(d: &impl Sized) {} }",
    # generic argument lists on the trait of the block: empty, turbofish-style, with arguments, parenthesised, on an earlier segment
    "impl Tr<> for X { fn a(d: &impl Sized) {} }", "impl Tr::<> for X { fn a<D>(d: &D) {} }", "impl Tr<u8> for X { fn a(d: &impl Sized) {} }",
    "impl<'a, T> path::Tr<'a, T> for X { fn a(d: &impl Sized) {} }", "impl Fn(u8) -> u8 for X {}", "impl outer::<u8>::Tr for X { fn a(d: &impl Sized) {} }",
]

PINNED = [
    ("missing_deps", "#[::entrait::entrait(Foo)]\nfn\n/*@off*/ no_receiver\n() {}", r"must have a dependency 'receiver'"),
    ("self_receiver", "#[::entrait::entrait(Foo)]\nfn f(\n/*@off*/ &self\n) {}", r"cannot have a self receiver"),
    ("concrete_in_mod", "#[::entrait::entrait(Foo)]\nmod m { pub fn f(d: &\n/*@off*/ Concrete\n) {} }", r"concrete dependencies in a module"),
    ("concrete_in_impl", "#[::entrait::entrait]\nimpl T for X { fn f(d: &\n/*@off*/ Concrete\n) {} }", r"concrete dependency in an impl block"),
    ("dyn_in_mod", "#[::entrait::entrait(Foo)]\nmod m { pub fn f(d: &\n/*@off*/ dyn Clock\n) {} }", r"concrete dependencies in a module"),
    ("dyn_in_impl", "#[::entrait::entrait]\nimpl T for X { fn f(d: &\n/*@off*/ dyn Clock\n, a: u8) {} }", r"concrete dependency in an impl block"),
    ("unknown_option", "#[::entrait::entrait(Foo,\n/*@off*/ bogus\n)]\nfn f<D>(d: &D) {}", r'Unkonwn entrait option "bogus"'),
    ("unknown_q_option", "#[::entrait::entrait(Foo, ?\n/*@off*/ Sync\n)]\nfn f<D>(d: &D) {}", r'Unkonwn entrait option "Sync"'),
    ("unsupported_delegate_on_fn", "#[::entrait::entrait(Foo,\n/*@off*/ delegate_by\n = ref)]\nfn f<D>(d: &D) {}", r"Unsupported option"),
    ("unsupported_nodeps_on_trait", "#[::entrait::entrait(\n/*@off*/ no_deps\n)]\ntrait T {}", r"Unsupported option"),
    ("unsupported_export_on_trait", "#[::entrait::entrait(TImpl, delegate_by = ref,\n/*@off*/ export\n)]\ntrait T {}", r"Unsupported option"),
    ("unsupported_mockall_on_impl", "#[::entrait::entrait(\n/*@off*/ mockall\n)]\nimpl T for X {}", r"Unsupported option"),
    ("custom_delegate_without_target", "#[::entrait::entrait(\n/*@off*/ delegate_by\n = Custom)]\ntrait T {}", r"custom delegating trait without a custom trait"),
    ("target_without_delegate", "#[::entrait::entrait(TImpl)] /*@off*/\ntrait T {}", r"Missing delegate_by"),
    # the same misuses in other spellings / on other targets
    ("target_with_delegate_by_self", "#[::entrait::entrait(TImpl, delegate_by = Self)] /*@off*/\ntrait T { fn f(&self); }", r"Missing delegate_by"),
    ("pub_target_without_delegate", "#[::entrait::entrait(pub TImpl, mockall = false)] /*@off*/\npub trait T { fn f(&self); }", r"Missing delegate_by"),
    ("custom_delegate_without_target_opts", "#[::entrait::entrait(?Send,\n/*@off*/ delegate_by\n = Custom, unimock = false)]\ntrait T { async fn f(&self); }", r"custom delegating trait without a custom trait"),
    ("missing_deps_in_mod", "#[::entrait::entrait(Foo)]\nmod m { pub fn\n/*@off*/ no_receiver\n() {} pub fn ok<D>(d: &D) {} }", r"must have a dependency 'receiver'"),
    ("missing_deps_in_impl", "#[::entrait::entrait]\nimpl T for X { fn\n/*@off*/ no_receiver\n() {} }", r"must have a dependency 'receiver'"),
    ("self_receiver_in_mod", "#[::entrait::entrait(Foo)]\nmod m { pub fn f(\n/*@off*/ self\n, a: i32) {} }", r"cannot have a self receiver"),
    ("self_receiver_in_impl", "#[::entrait::entrait(ref)]\nimpl T for X { fn f(\n/*@off*/ &self\n) {} }", r"cannot have a self receiver"),
    ("self_receiver_no_deps", "#[::entrait::entrait(Foo, no_deps)]\nfn f(\n/*@off*/ &mut self\n, a: i32) {}", r"cannot have a self receiver"),
    ("concrete_in_mod_second_fn", "#[::entrait::entrait(Foo)]\nmod m { pub fn ok<D>(d: &D) {} pub fn f(d: &\n/*@off*/ some::Concrete\n) {} }", r"concrete dependencies in a module"),
    # (an unknown word in *first* position on a trait is grammatically the delegation-target name, so it is placed second)
    ("unknown_option_on_trait", "#[::entrait::entrait(?Send,\n/*@off*/ bogus\n = true)]\ntrait T {}", r'Unkonwn entrait option "bogus"'),
    ("unknown_option_on_impl", "#[::entrait::entrait(ref\n/*@off*/ bogus\n)]\nimpl T for X {}", r'Unkonwn entrait option "bogus"'),
    ("unknown_option_on_mod", "#[::entrait::entrait(Foo, export,\n/*@off*/ nodeps\n)]\nmod m {}", r'Unkonwn entrait option "nodeps"'),
    ("unsupported_delegate_on_mod", "#[::entrait::entrait(Foo,\n/*@off*/ delegate_by\n = Self)]\nmod m {}", r"Unsupported option"),
    ("unsupported_export_on_impl", "#[::entrait::entrait(\n/*@off*/ export\n)]\nimpl T for X {}", r"Unsupported option"),
    ("unsupported_send_on_impl", "#[::entrait::entrait(ref ?\n/*@off*/ Send\n)]\nimpl T for X {}", r"Unsupported option"),
    ("unsupported_mock_api_on_impl", "#[::entrait::entrait(\n/*@off*/ mock_api = M\n)]\nimpl T for X {}", r"Unsupported option"),
    ("empty_generic_args_on_impl_trait", "#[::entrait::entrait]\nimpl T\n/*@off*/ <>\n for X { fn f(d: &impl Sized) {} }", r"Generic arguments are not supported"),
    ("generic_args_on_impl_trait", "#[::entrait::entrait(ref)]\nimpl some::T\n/*@off*/ ::<u8>\n for X { fn f(d: &impl Sized) {} }", r"Generic arguments are not supported"),
    ("unsupported_nodeps_on_trait_with_target", "#[::entrait::entrait(TImpl, delegate_by = DelegateT,\n/*@off*/ no_deps\n = false)]\ntrait T {}", r"Unsupported option"),
]


def gen_misuses(rng, n):
    """Generated embeddings of the documented misuses: the offending token sits on its own line (after /*@off*/), at a
    random position among well-formed neighbours (other fns of the module / block, other options of the list)."""
    ok_fns = ["pub fn ok%d<D>(d: &D) {}", "pub fn ok%d(d: &impl Sized) -> u8 { 0 }", "pub async fn ok%d<D: Clone>(d: &D, a: u8) -> u8 { a }",
              "pub(crate) fn ok%d<D>(_: &D, (a, b): (u8, u8)) {}", "pub fn ok%d<D>(d: D, a: &str) {}", "fn private%d() {}"]
    ok_impl_fns = ["fn ok%d<D>(d: &D) {}", "fn ok%d(d: &impl Sized) -> u8 { 0 }", "async fn ok%d<D: Clone>(d: &D, a: u8) -> u8 { a }", "pub fn ok%d<D>(d: &D, _: u8) {}"]
    concrete = ["Concrete", "some::Concrete", "crate::Concrete", "Concrete<u8>", "super::App", "Vec<u8>", "::abs::Concrete",
                "dyn Tr", "dyn some::Tr", "(dyn Tr + Sync)", "dyn Fn(u8) -> u8", "[u8]", "(u8, u8)", "str"]   # trait objects & co. are concrete too (round 19)
    self_forms = ["&self", "self", "&mut self", "mut self", "self: Box<Self>", "self: &Self", "&'a self"]
    valid = {"fn": ["export", "?Send", "mock_api = M", "unimock = false", "mockall = false", "debug = false", "no_deps = false"],
             "mod": ["export", "?Send", "mock_api = M", "unimock = false", "mockall = false", "debug = false"],
             "trait": ["?Send", "mock_api = M", "unimock = false", "mockall = false", "debug = false", "delegate_by = ref"],
             "impl": ["debug = false"]}
    unknown = ["bogus", "nodeps", "no_dep", "exports", "mock", "mockal", "unimok", "delegate", "send", "debugg", "Export", "NO_DEPS", "r#export", "dyn_"]
    unsupported = {"fn": ["delegate_by = ref", "delegate_by = Self", "delegate_by = Custom"], "mod": ["delegate_by = ref", "delegate_by = Self"],   # (no_deps on a module: recorded finding K7 of C17)
                   "trait": ["no_deps", "export", "export = false"], "impl": ["export", "mockall", "unimock = false", "mock_api = M", "no_deps", "?Send", "delegate_by = ref"]}
    items = {"fn": "fn f<D>(d: &D) {}", "mod": "mod m { pub fn f<D>(d: &D) {} }", "trait": "trait T { fn f(&self); }", "impl": "impl T for X { fn f<D>(d: &D) {} }"}
    out = []

    def container(kind, bad_fn):
        k = rng.randint(0, 3)
        pool = ok_fns if kind == "mod" else ok_impl_fns
        fns = [rng.choice(pool) % i for i in range(k)]
        fns.insert(rng.randint(0, k), bad_fn)
        if kind == "mod":
            return "#[::entrait::entrait(%sFoo%s)]\n%smod m {\n%s\n}" % (rng.choice(["", "pub ", "pub(crate) "]), rng.choice(["", ", export", ", ?Send"]),
                                                                       rng.choice(["", "pub "]), "\n".join("    " + f for f in fns))
        return "#[::entrait::entrait%s]\nimpl T for X {\n%s\n}" % (rng.choice(["", "(debug = false)"]), "\n".join("    " + f for f in fns))

    def attr_with(kind, bad, after_value=""):
        """option list for `kind` with `bad` (on its own line) at a random position among valid options"""
        opts = rng.sample(valid[kind], rng.randint(0, min(2, len(valid[kind]))))
        if kind == "trait" and rng.random() < 0.5:
            opts = [o for o in opts if not o.startswith("delegate_by")]
        pos = rng.randint(0, len(opts))
        lst = opts[:pos] + ["\n/*@off*/ " + bad + after_value + "\n"] + opts[pos:]
        head = {"fn": ["Foo"], "mod": ["pub Foo"], "trait": [], "impl": []}[kind]
        return head, lst

    for i in range(n):
        kind = rng.choice(["concrete_mod", "concrete_impl", "missing_fn", "missing_mod", "missing_impl", "self_fn", "self_mod", "self_impl",
                           "unknown", "unknown", "qmark", "unsupported", "unsupported", "custom_no_target", "target_no_delegate"])
        nm = "g%03d_%s" % (i, kind)
        if kind in ("concrete_mod", "concrete_impl"):
            gate = rng.choice(["", "", "", "#[cfg(all())] ", "#[cfg(any())] ", "#[cfg(feature = \"not_there\")] ", "#[inline] "])   # a gated fn is still a misuse
            bad = "%s%sfn bad(d: &\n/*@off*/ %s\n%s) {}" % (gate, "pub " if kind == "concrete_mod" else "", rng.choice(concrete), rng.choice(["", ", a: u8"]))
            out.append((nm, container("mod" if kind == "concrete_mod" else "impl", bad),
                        r"concrete dependencies in a module" if kind == "concrete_mod" else r"concrete dependency in an impl block"))
        elif kind.startswith("missing"):
            bad = "%sfn\n/*@off*/ no_receiver\n() {}" % rng.choice(["pub ", "pub(crate) "] if kind == "missing_mod" else ["", "pub "])
            src = "#[::entrait::entrait(Foo%s)]\n%s" % (rng.choice(["", ", export", ", no_deps = false"]), bad) if kind == "missing_fn" else \
                container("mod" if kind == "missing_mod" else "impl", bad)
            out.append((nm, src, r"must have a dependency 'receiver'"))
        elif kind.startswith("self"):
            sf = rng.choice(self_forms)
            lt = "<'a>" if "'a" in sf else ""
            bad = "%sfn bad%s(\n/*@off*/ %s\n%s) {}" % ("pub " if kind != "self_impl" else "", lt, sf, rng.choice(["", ", a: u8", ", d: &impl Sized"]))
            src = "#[::entrait::entrait(Foo%s)]\n%s" % (rng.choice(["", ", no_deps", ", ?Send"]), bad) if kind == "self_fn" else \
                container("mod" if kind == "self_mod" else "impl", bad)
            out.append((nm, src, r"cannot have a self receiver"))
        elif kind == "qmark":
            # `?` belongs to `?Send` only: in front of any other option name it makes an unknown option
            tgt = rng.choice(["fn", "mod", "trait", "impl"])
            word = rng.choice(["no_deps", "export", "debug", "unimock", "mockall", "mock_api", "delegate_by", "Sync", "Sized", "send"])
            val = {"mock_api": " = M", "delegate_by": " = ref"}.get(word, rng.choice(["", " = true", " = false"]))
            head, lst = attr_with(tgt, "?" + rng.choice(["", " "]) + word, val)
            if tgt in ("trait", "impl") and not head and lst[0].startswith("\n"):
                lst = [rng.choice(valid[tgt])] + lst if tgt == "trait" else ["debug = false"] + lst
            out.append((nm, "#[::entrait::entrait(%s)]\n%s" % (", ".join(head + lst), items[tgt]), 'Unkonwn entrait option "%s"' % word))
        elif kind in ("unknown", "unsupported"):
            tgt = rng.choice(["fn", "mod", "trait", "impl"])
            if kind == "unknown":
                word = rng.choice(unknown)
                head, lst = attr_with(tgt, word, rng.choice(["", " = true", " = false", " = Foo"]))
                if tgt in ("trait", "impl") and not head and lst[0].startswith("\n"):
                    # first position of a trait's list is the delegation-target name; of an impl's list `ref` / `dyn`
                    lst = [rng.choice(valid[tgt])] + lst if tgt == "trait" else ["debug = false"] + lst
                msg = 'Unkonwn entrait option "%s"' % word
            else:
                word = rng.choice(unsupported[tgt])
                head, lst = attr_with(tgt, word)
                if tgt == "trait":
                    lst = [o for o in lst if not (o.startswith("delegate_by") )]
                msg = r"Unsupported option"
            out.append((nm, "#[::entrait::entrait(%s)]\n%s" % (", ".join(head + lst), items[tgt]), msg))
        elif kind == "custom_no_target":
            word = rng.choice(["Custom", "DelegateT", "some_trait", "SELF", "Ref", "borrow"])
            opts = rng.sample([o for o in valid["trait"] if not o.startswith("delegate_by")], rng.randint(0, 2))
            pos = rng.randint(0, len(opts))
            lst = opts[:pos] + ["\n/*@off*/ delegate_by\n = " + word] + opts[pos:]
            out.append((nm, "#[::entrait::entrait(%s)]\n%strait T { fn f(&self); }" % (", ".join(lst), rng.choice(["", "pub "])),
                        r"custom delegating trait without a custom trait"))
        else:
            opts = rng.sample([o for o in valid["trait"] if not o.startswith("delegate_by")], rng.randint(0, 2))
            if rng.random() < 0.3:
                opts.append("delegate_by = Self")
            out.append((nm, "#[::entrait::entrait(%s)] /*@off*/\n%strait T { fn f(&self); }" % (", ".join([rng.choice(["", "pub ", "pub(crate) "]) + "TImpl"] + opts), rng.choice(["", "pub "])),
                        r"Missing delegate_by"))
    return out


# inputs of recorded (not repaired) findings: exercised only here, never by the random generators
KNOWN_PINS = [
    ("unsafe_impl_block", "#[::entrait::entrait] /*@inv*/\nunsafe impl UnsafeImpl for X { fn f(d: &impl Sized) {} }"),
]


def fuzz_attr(rng):
    n = rng.randint(0, 10)
    toks = [rng.choice(ATTR_ALPHABET) for _ in range(n)]
    # half of the time: mostly well-formed comma separated list
    if rng.random() < 0.5:
        return ", ".join(t for t in toks if t not in (",",))
    return " ".join(toks)


def fuzz_fn(rng, name, no_deps=False):
    n = rng.randint(1, 3) if no_deps else rng.randint(0, 5)
    ps = [rng.choice(PATTERNS).replace("NAME", name) for _ in range(n)]
    first = rng.choice(["deps: &D", "deps: &D", "deps: &impl Sized", "deps: D", rng.choice(SELF_FORMS), "", "deps: &Concrete"])
    if no_deps and rng.random() < 0.8:
        first = ""
    params = ", ".join([p for p in [first] + ps if p])
    q = rng.choice(["", "", "async ", "unsafe ", "extern \"C\" ", "pub "])
    g = "<D>" if "D" in first.split(":")[-1].replace("Debug", "") and "impl" not in first else ""
    if "'a" in first:
        g = "<'a>"
    return "%sfn %s%s(%s) { }" % (q, name, g, params)


def fuzz_trait(rng):
    ms = []
    for i in range(rng.randint(0, 4)):
        ps = [rng.choice(PATTERNS).replace("NAME", "m%d" % i) for _ in range(rng.randint(0, 3))]
        recv = rng.choice(["&self", "&self", "&self", rng.choice(SELF_FORMS), ""])
        body = rng.choice([";", ";", " { }"])
        ms.append("%sfn m%d(%s)%s" % (rng.choice(["", "", "async "]), i, ", ".join([p for p in [recv] + ps if p]), body))
    return "trait FT { %s }" % " ".join(ms)


def gen(n, rng):
    cases = []
    for i in range(n):
        cid = "c15_%05d" % i
        r = rng.random()
        macro = rng.choice(["entrait", "entrait", "entrait_export"])
        if r < 0.45:
            kind = rng.choice(list(ITEMS))
            src = "#[::entrait::%s(%s)] /*@inv*/\n%s\n" % (macro, fuzz_attr(rng), ITEMS[kind])
            meta = {"family": "attr-fuzz", "target": kind}
        elif r < 0.7:
            name = rng.choice(["foo", "r#match", "arg1", "x", "r#type"])
            a = rng.choice(["Foo", "pub Foo", "Foo, no_deps", "Foo, mock_api = M, unimock", "Foo, ?Send", "Foo, export, mockall"])
            src = "#[::entrait::%s(%s)] /*@inv*/\n%s\n" % (macro, a, fuzz_fn(rng, name, no_deps="no_deps" in a))
            meta = {"family": "fn-patterns"}
        elif r < 0.85:
            a = rng.choice(["", "FImpl, delegate_by = DelegateF", "FImpl, delegate_by = ref", "delegate_by = ref", "delegate_by = Borrow",
                            "mock_api = M, unimock", "mockall", "?Send", "pub FImpl, delegate_by = ref, ?Send"])
            src = "#[::entrait::%s(%s)] /*@inv*/\n%s\n" % (macro, a, fuzz_trait(rng))
            meta = {"family": "trait-patterns"}
        else:
            a = rng.choice(["", "Foo", "Foo, no_deps", "ref", "FImpl, delegate_by = ref", "pub Foo"])
            src = "#[::entrait::%s(%s)] /*@inv*/\n%s\n" % (macro, a, rng.choice(OTHER_ITEMS))
            meta = {"family": "items"}
        cases.append(Case(cid, src, meta=meta, run=False, expect="expand"))
    return cases


def reparse(records, workdir):
    """Feed every recorded output to the nightly parser (parser only); returns {index: message}."""
    workdir.mkdir(parents=True, exist_ok=True)
    bad = {}
    chunk = 50
    import concurrent.futures

    def do_chunk(start):
            part = records[start:start + chunk]
            lines = ["mod __n%d { %s }" % (k, tok.to_rust(r["output"]).replace("\n", " ")) for k, r in enumerate(part)]
            off = 0
            # the parser may give up on a file after its first error: continue behind the failing line until the chunk is done
            while off < len(lines):
                f = workdir / ("reparse_%d_%d.rs" % (start, off))
                f.write_text("\n".join(lines[off:]) + "\n")
                p = subprocess.run(["rustc", "+nightly", "-Zparse-crate-root-only", "--edition", "2021", "--error-format=json", str(f)],
                                   stdout=subprocess.PIPE, stderr=subprocess.PIPE, text=True, timeout=600)
                if p.returncode not in (0, 1):
                    raise core.Inconclusive("nightly parser failed to run: %s" % p.stderr[-500:])
                first = None
                for line in p.stderr.split("\n"):
                    if not line.startswith("{"):
                        continue
                    try:
                        m = json.loads(line)
                    except json.JSONDecodeError:
                        continue
                    if m.get("level") != "error":
                        continue
                    for sp in m.get("spans", []):
                        if sp.get("is_primary"):
                            idx = off + sp["line_start"] - 1
                            bad.setdefault(start + idx, m.get("message", ""))
                            first = idx if first is None else min(first, idx)
                if first is None:
                    break
                off = max(first + 1, off + 1)

    with concurrent.futures.ThreadPoolExecutor(max_workers=core.NCPU) as ex:
        list(ex.map(do_chunk, range(0, len(records), chunk)))
    return bad


def run(tier, seed):
    rep = core.Report(PROP, tier, seed)
    rep.rule = ("expansion-only fuzz: (i) attribute argument token sequences of length 0..10 over option names, near-misses, "
                "keywords, punctuation, literals and groups on fn/mod/trait/impl targets, (ii) fns and trait methods over the "
                "parameter-pattern grammar, self forms, name collisions, (iii) unsupported item kinds; plus the pinned table of "
                "documented misuses. Observed: begin/end/panic recorder events, compiler diagnostics, nightly re-parse of every "
                "output. distinct = hash of (attr, input) tokens; non-trivial = reached an error path or has a non-identifier pattern")
    n = 3000 if tier == "quick" else 40000
    rng = core.rng_for(PROP, seed)
    cases = gen(n, rng)
    rich = expand_corpus.corpus("c15r", n // 4, rng)
    for c in rich:
        c.meta["family"] = "rich-items"
        # `unsafe impl` blocks are the pinned known finding K10, exercised only by its pin
        c.src = c.src.replace("unsafe impl ", "impl ")
    cases += rich
    pinned = []
    for name, src, msg in PINNED + gen_misuses(rng, 150 if tier == "quick" else 1500):
        c = Case("c15pin_" + name, src + "\n", meta={"family": "pinned", "message": msg, "pin": name}, run=False, expect="expand")
        pinned.append(c)
    kpins = [Case("c15known_" + name, src + "\n", meta={"family": "known-pin", "pin": name}, run=False, expect="expand")
             for name, src in KNOWN_PINS]
    # keywords where the option grammar expects a name or a value (all targets)
    kw_cases = []
    KW = ["dyn", "fn", "match", "type", "Self", "self", "super", "crate", "ref", "mut", "r#dyn", "_", "true", "async", "impl"]
    k = 0
    for kw in KW:
        for tmpl in ("#[::entrait::entrait(TImpl, delegate_by = %s)] /*@inv*/\ntrait T { fn f(&self); }",
                     "#[::entrait::entrait(delegate_by = %s)] /*@inv*/\ntrait T { fn f(&self); }",
                     "#[::entrait::entrait(Foo, mock_api = %s)] /*@inv*/\nfn f<D>(d: &D) {}",
                     "#[::entrait::entrait(%s)] /*@inv*/\nfn f<D>(d: &D) {}",
                     "#[::entrait::entrait(pub %s, no_deps)] /*@inv*/\nfn f() {}",
                     "#[::entrait::entrait(%s, delegate_by = ref)] /*@inv*/\ntrait T { fn f(&self); }",
                     "#[::entrait::entrait(Foo, unimock = %s)] /*@inv*/\nmod m { pub fn f<D>(d: &D) {} }"):
            kw_cases.append(Case("c15kw_%03d" % k, (tmpl % kw) + "\n", meta={"family": "keyword-args"}, run=False, expect="expand"))
            k += 1
    cases = cases + kpins + kw_cases
    ws = core.Workspace(PROP, "x", expand_only=True)
    ws.extend(cases + pinned)
    ws.write()
    ws.build()
    by = {c.id: c for c in cases + pinned}
    all_recs = []
    for c in cases + pinned:
        panicked_diag = [d for d in c.diags if "panicked" in d["message"] or "panicked" in d.get("rendered", "")]
        if not c.records:
            rep.bump("cases_without_record")
            if panicked_diag:
                rep.violation(c.id, "panic-diag", "compiler reports a proc-macro panic: %s" % panicked_diag[0]["message"][:200])
            continue
        for r in c.records:
            all_recs.append((c, r))
            errpath = False
            if r["status"] == "panic":
                rep.violation(c.id, "panic:" + r["panic"][:60], "macro panicked: %s | attr: %s | input: %s" % (
                    r["panic"][:200], tok.render(r["attr"], 200), tok.render(r["input"], 400)))
            elif r["status"] == "open":
                rep.violation(c.id, "no-end-event", "expansion began but never returned (attr: %s)" % tok.render(r["attr"], 200))
            else:
                errpath = "compile_error" in tok.idents(r["output"][:8])
                rep.bump("error_outputs" if errpath else "success_outputs")
            nonid = any(not (len(p) >= 1 and "i" in p[0]) for p in [])
            sig = hashlib.sha1(repr((tok.leaves(r["attr"]), tok.leaves(r["input"]))).encode()).hexdigest()
            rep.count(sig, errpath or c.meta["family"] in ("fn-patterns", "trait-patterns"))
            rep.bucket("families", c.meta["family"])
        if panicked_diag and not any(r["status"] == "panic" for r in c.records):
            rep.violation(c.id, "panic-diag", "compiler reports a proc-macro panic: %s" % panicked_diag[0]["message"][:200])
    # every output must parse again
    ended = [(c, r) for c, r in all_recs if r["status"] == "end"]
    bad = reparse([r for _, r in ended], core.WORK / "c15" / "reparse")
    # an input that the parser itself complains about (after recovery) is not the macro's fault
    bad_in = reparse([{"output": r["input"]} for _, r in ended], core.WORK / "c15" / "reparse_in")
    rep.bump("outputs_reparsed", len(ended))
    for idx, msg in bad.items():
        c, r = ended[idx]
        if bad_in.get(idx) == msg:
            rep.bump("inputs_already_unparseable")
            continue
        rep.violation(c.id, "output-unparseable:" + msg[:50], "macro output does not parse: %s | attr: %s | input: %s" % (
            msg, tok.render(r["attr"], 200), tok.render(r["input"], 400)), {"output": tok.render(r["output"], 3000)},
            pinned=c.meta.get("pin"))
    # pinned misuses: specific message at the offending line
    for c in pinned:
        want = c.meta["message"]
        line = c.marks["off"]
        import re
        hits = [d for d in c.diags if re.search(want, d["message"])]
        if not hits:
            rep.violation(c.id, "misuse-message-missing", "documented misuse %s not rejected with its message /%s/; diagnostics: %s" % (
                c.meta["pin"], want, [d["message"][:80] for d in c.diags]))
        elif not any(d.get("line") == line for d in hits):
            rep.violation(c.id, "misuse-wrong-span", "misuse %s reported at line %s, offending token is on line %s" % (
                c.meta["pin"], [d.get("line") for d in hits], line))
        else:
            rep.bump("pinned_misuses_confirmed")
    rep.sample({"case": cases[0].id, "source": cases[0].src, "records": [{"status": r["status"], "output": tok.render(r.get("output") or [], 200)} for r in cases[0].records]})
    rep.sample({"case": pinned[0].id, "source": pinned[0].src, "diags": [d["message"] for d in pinned[0].diags]})
    rep.bump("expansion_records", len(all_recs))
    core.floors(rep, expansion_records=n // 2, outputs_reparsed=n // 2)
    return rep.finish(by)
