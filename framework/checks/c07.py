"""C07 - dependency inversion: Impl<T> reaches the selected implementation block.
Oracle: differential (trait call on Impl<App> vs the inherent fn of the selected target called
directly) with competing target types that have identical method names."""
from .. import core, selftest
from ..core import Case
from ..gen import traits as tg

PROP = "C07"


def impl_fn(m, fn_id, deps_form, bounds, vis):
    lt = (m.self_lt + " ") if m.self_lt else ""
    where = ""
    if deps_form == "generic":
        g = m.generics_text(extra_first=["D" + ((": " + " + ".join(bounds)) if bounds else "")])
        dty = "&%sD" % lt
    elif deps_form == "split":
        # the bounds of the named dependency parameter are split between the parameter list and the where clause
        g = m.generics_text(extra_first=["D: " + bounds[0]])
        where = " where D: " + " + ".join(bounds[1:])
        dty = "&%sD" % lt
    elif deps_form == "where2":
        # ... or between several where predicates
        g = m.generics_text(extra_first=["D"])
        where = " where " + ", ".join("D: " + b for b in bounds)
        dty = "&%sD" % lt
    else:
        g = m.generics_text()
        b = " + ".join(bounds) if bounds else "::core::marker::Sized"
        dty = "&%s(impl %s)" % (lt, b) if len(bounds) > 1 else "&%simpl %s" % (lt, b)
    ps = ["deps: " + dty] + [p.decl() for p in m.params]
    sig = "%s%s%sfn %s%s(%s)%s%s" % (vis, "async " if m.is_async else "", "unsafe " if getattr(m, "unsafe_fn", False) else "", m.name, g, ", ".join(ps), m.ret_text(), where)
    return sig + " " + m.body(fn_id, "deps", name_expr='"name_from_%s"' % fn_id.split("::")[-2])


def build_case(cid, rng, dynamic, force_async=False, no_send=False, probes=False):
    want_async = force_async or rng.random() < 0.45
    # async_trait is needed for dynamic selection and may also be used with static selection
    with_at = want_async and (dynamic or (not no_send and rng.random() < 0.3))
    t = tg.random_trait(rng, "Tr", dyn_safe=True, allow_async=want_async, with_async_trait=with_at, allow_generic_trait=False, allow_ghost=True)
    if not probes and not t.async_trait:
        for m_ in t.methods:
            # `unsafe fn` / `async unsafe fn` methods: implemented by equally qualified fns of the blocks
            if rng.random() < 0.12:
                m_.unsafe_fn = True
    t.supers = [s for s in t.supers if "Sized" not in s]
    t.const_pos = None
    if not want_async:
        for m in t.methods:
            m.is_async = False
    if force_async and not any(m.is_async for m in t.methods):
        t.methods[0].is_async = True
        t.methods[0].mgenerics = [(n_, b_ + ["::core::marker::Send"]) for n_, b_ in t.methods[0].mgenerics]
        if dynamic and not t.async_trait:
            t.async_trait = "#[::async_trait::async_trait]"
    has_async = any(m.is_async for m in t.methods)
    if not dynamic:
        # static delegation also serves `&mut self` methods (the impl-block fn still receives `&Impl<T>`)
        for m in t.methods:
            # (not for async methods: a future holding `&mut Impl<T>` is Send only if `T: Send`, which is rustc's rule
            # and beyond what the generated impl may require of `T`)
            if m.ret != "borrow_self" and not m.is_async and not force_async and rng.random() < 0.2:
                m.recv_mut = True
    if dynamic:
        # K11 (recorded finding): dynamic impl blocks cannot return borrows from the dependency
        for m in t.methods:
            if m.ret == "borrow_self":
                m.ret = "owned"
                m.self_lt = None
                m.lifetimes = [l for l in m.lifetimes if l != "'a"]
    # helper leaf deps the impl fns may require of Impl<App>
    helpers = []
    L = tg.support_for(t.methods, t)
    same_named = rng.random() < 0.45
    leaf_impls = []
    for i in range(rng.randint(0, 2) if not same_named else 2):
        fid = "%s::h%d" % (cid, i)
        body = 'fn h%d<D>(deps: &D, x: i32) -> i32 { ::vrt::enter("%s", ::vrt::tn(deps), ::vrt::addr(deps), &[&x as &dyn ::core::fmt::Debug]); x }' % (i, fid)
        if same_named:
            # two different dependency traits whose paths end in the same identifier; hand-implemented leaf traits, so
            # that `Impl<App>: hmK::H` really depends on the bound being stated (no blanket impl)
            L.append("pub mod hm%d { #[::entrait::entrait] pub trait H { fn h%d(&self, x: i32) -> i32; } }" % (i, i))
            leaf_impls.append('impl hm%d::H for APP { fn h%d(&self, x: i32) -> i32 { ::vrt::enter("%s", "", ::vrt::addr(self), &[&x as &dyn ::core::fmt::Debug]); x } }' % (i, i, fid))
            helpers.append(("hm%d::H" % i, "h%d" % i, fid))
        else:
            L.append("#[::entrait::entrait(pub H%d)]" % i)
            L.append(body)
            helpers.append(("H%d" % i, "h%d" % i, fid))
    # dynamic selection through AsRef (`ref`) or through Borrow (the deprecated spelling)
    via_borrow = dynamic and rng.random() < 0.3
    opts = ["TrImpl" if rng.random() < 0.7 else "pub TrImpl", "delegate_by = %s" % (("Borrow" if via_borrow else "ref") if dynamic else "DelegateTr")]
    if rng.random() < 0.2:
        opts.append(rng.choice(["mockall = false", "unimock = false", "debug = false"]))
    if no_send:
        opts.append("?Send")
    L.append("#[::entrait::entrait(%s)] /*@inv*/" % ", ".join(opts))
    L.append(t.source())
    ntargets = rng.choice([2, 2, 3])
    targets = ["Target%s" % "ABC"[k] for k in range(ntargets)]
    if rng.random() < 0.3:
        # target types written as paths, all with the same last segment (and one plain `Target` in scope)
        targets = ["ta::Target", "tb::Target", "Target"][:ntargets] if ntargets == 3 else ["ta::Target", "Target"]
        rng.shuffle(targets)
        L.append("pub mod ta { pub struct Target; } pub mod tb { pub struct Target; }")
    nested_by_target = {}
    for tname in targets:
        if "::" not in tname:
            L.append("pub struct %s;" % tname)
        at = (t.async_trait + "\n") if t.async_trait else ""
        # (dynamic blocks are written `ref`, or with the older spelling `dyn`)
        L.append("#[::entrait::entrait%s] /*@impl_%s*/\n%simpl TrImpl for %s {" % (rng.choice(["(ref)", "(ref)", "(dyn)"]) if dynamic else "", tname.replace("::", "_"), at, tname))
        if rng.random() < 0.12:
            # inner attributes open the block's body
            L.append("    " + rng.choice(["#![allow(unused_variables)]", "//! inner docs of the block", "#![allow(clippy::all, dead_code)]"]))
        for m in t.methods:
            k = rng.randint(0, len(helpers))
            hs = rng.sample(helpers, k)
            bounds = [h[0] for h in hs]
            form = "generic" if (not bounds and rng.random() < 0.5) or rng.random() < 0.3 else "impl"
            if len(bounds) >= 2 and rng.random() < 0.5:
                form = rng.choice(["split", "where2"])
            import copy
            mm = copy.deepcopy(m)
            mm.nested = [(h[1], h[2], "%di32" % rng.randint(1, 9), False) for h in hs if rng.random() < 0.8]
            if no_send and mm.is_async and not t.async_trait:
                mm.pre = "let __rc = ::std::rc::Rc::new(1u8); ::vrt::yield_once().await; let _ = *__rc;"
            nested_by_target[(tname, m.name)] = [x[1] for x in mm.nested]
            L.append("    " + impl_fn(mm, "%s::%s::%s" % (cid, tname, m.name), form, bounds, rng.choice(["", "pub ", "pub(crate) "])))
        for _pos, g in t.ghosts:
            # the configured-out methods of the trait, configured out in the block as well
            L.append("    " + tg.GHOST_IMPL_FNS[tg.GHOSTS.index(g)])
        L.append("}")
    # apps
    apps = []
    if not dynamic:
        for k in range(2):
            tgt = targets[(k + rng.randint(0, 1)) % ntargets] if k else targets[rng.randrange(ntargets)]
            if k == 1 and tgt == apps[0][1]:
                tgt = [x for x in targets if x != apps[0][1]][0]
            # half of the applications are `Sync` but not `Send` (they hold a lock guard): static delegation asks `Sync` of an
            # application only where a method is async, and `Send` never
            guard = rng.random() < 0.5 and not any("Send" in x for x in t.supers)
            L.append("pub struct App%d { pub tag: u32%s }" % (k, ", pub guard: ::core::option::Option<::std::sync::MutexGuard<'static, ()>>" if guard else ""))
            L += [x.replace("APP", "App%d" % k) for x in leaf_impls]
            L.append("impl DelegateTr<Self> for App%d { type Target = %s; }" % (k, tgt))
            apps.append(("App%d" % k, tgt, "App%d { tag: %d%s }" % (k, k, ", guard: ::core::option::Option::None" if guard else "")))
    else:
        sync = " + ::core::marker::Sync" if has_async else ""
        L.append("pub struct AppD { pub t: ::std::boxed::Box<dyn TrImpl<AppD> + ::core::marker::Send + ::core::marker::Sync>, pub decoy: ::std::boxed::Box<dyn TrImpl<AppD> + ::core::marker::Send + ::core::marker::Sync> }")
        L += [x.replace("APP", "AppD") for x in leaf_impls]
        # the app provides its target through the selected conversion trait; the *other* conversion trait leads to a decoy
        sel_f, dec_f = ("t", "decoy")
        if via_borrow:
            L.append("impl ::core::borrow::Borrow<dyn TrImpl<AppD>%s> for AppD { fn borrow(&self) -> &(dyn TrImpl<AppD>%s + 'static) { &*self.%s } }" % (sync, sync, sel_f))
            L.append("impl ::core::convert::AsRef<dyn TrImpl<AppD>%s> for AppD { fn as_ref(&self) -> &(dyn TrImpl<AppD>%s + 'static) { &*self.%s } }" % (sync, sync, dec_f))
        else:
            L.append("impl ::core::convert::AsRef<dyn TrImpl<AppD>%s> for AppD { fn as_ref(&self) -> &(dyn TrImpl<AppD>%s + 'static) { &*self.%s } }" % (sync, sync, sel_f))
            L.append("impl ::core::borrow::Borrow<dyn TrImpl<AppD>%s> for AppD { fn borrow(&self) -> &(dyn TrImpl<AppD>%s + 'static) { &*self.%s } }" % (sync, sync, dec_f))
        picks = rng.sample(targets, 2)
        for k, tgt in enumerate(picks):
            other = [x for x in targets if x != tgt][0]
            apps.append(("AppD", tgt, "AppD { t: ::std::boxed::Box::new(%s), decoy: ::std::boxed::Box::new(%s) }" % (tgt, other)))
    D = ["pub fn run() {"]
    calls = []
    base = 1
    if probes and not t.async_trait:
        from .c06 import probe_lines
        L += probe_lines(t, "Tr", cid)
        D.append("    { let papp = ::entrait::Impl::new(%s); __c12_probe(&papp);" % apps[0][2])
        for m in t.methods:
            if m.is_async:
                s1, e1, _d = m.call_args(50, "q")
                D += ["    " + x for x in s1]
                D.append('    { let fut = %s::%s(%s); ::vrt::fact("dout:%s", ::vrt::output_type_name(&fut)); }' % (
                    apps[0][1], m.name, ", ".join(["&papp"] + e1), m.name))
        D.append("    }")
    for ai, (aty, tgt, ctor) in enumerate(apps):
        D.append("    let mut app%d = ::entrait::Impl::new(%s);" % (ai, ctor))
        D.append('    ::vrt::fact("app%d_addr", ::vrt::addr(&app%d)); ::vrt::fact("app%d_tn", ::vrt::tn(&app%d));' % (ai, ai, ai, ai))
        for mi, m in enumerate(t.methods):
            s1, e1, d1 = m.call_args(base, "%d_%dd" % (ai, mi))
            s2, e2, d2 = m.call_args(base, "%d_%dt" % (ai, mi))
            base += len(m.params) + 1
            wrap0 = (lambda c: "::vrt::block_on(%s)" % c) if m.is_async else (lambda c: c)
            wrap = (lambda c, w_=wrap0: w_("unsafe { %s }" % c)) if getattr(m, "unsafe_fn", False) else wrap0
            lab = "a%d:%s" % (ai, m.name)
            D.append('    ::vrt::phase("direct:%s");' % lab)
            D += ["    " + s for s in s1]
            D.append('    let r = %s; ::vrt::result(&r); ::vrt::record_polls();' % wrap("%s::%s(%s)" % (tgt, m.name, ", ".join(["&app%d" % ai] + e1))))
            D.append('    ::vrt::phase("trait:%s");' % lab)
            D += ["    " + s for s in s2]
            D.append('    let r = %s; ::vrt::result(&r); ::vrt::record_polls();' % wrap("app%d.%s(%s)" % (ai, m.name, ", ".join(e2))))
            calls.append({"label": lab, "app": ai, "fn": "%s::%s::%s" % (cid, tgt, m.name), "args": d1, "async": m.is_async,
                          "nested": nested_by_target[(tgt, m.name)], "others": ["%s::%s::" % (cid, x) for x in targets if x != tgt]})
    D.append("}")
    nt = ntargets >= 2 and (len(t.methods) >= 2 or any(
        any(a.type_text() == b.type_text() for a, b in zip(m.params, m.params[1:])) for m in t.methods))
    meta = {"dynamic": dynamic, "calls": calls, "targets": targets, "apps": apps, "nontrivial": nt, "opts": opts, "leaf_helpers": same_named,
            "async_trait": t.async_trait, "async_methods": [m.name for m in t.methods if m.is_async], "no_send": no_send,
            "methods": [m.trait_sig() for m in t.methods]}
    return Case(cid, "\n".join(L + D) + "\n", meta=meta)


def hygiene_case(cid, rng):
    """Delegated trait and impl block both stamped out by macro_rules!, with parameter names of mixed hygiene."""
    n = rng.randint(2, 4)
    dynamic = rng.random() < 0.4
    def mixed():
        origins = [rng.choice(["caller", "macro"]) for _ in range(n)]
        if len(set(origins)) == 1:
            origins[0] = "caller" if origins[0] == "macro" else "macro"
        used = {"caller": set(), "macro": set()}
        names = []
        for o in origins:
            nm = rng.choice([x for x in ["a", "b", "inner", "c", "d"] if x not in used[o]][:3])
            used[o].add(nm)
            names.append(nm)
        return origins, names
    def render(origins, names, prefix):
        matcher, args, ps = [], [], []
        for i, (o, nm) in enumerate(zip(origins, names)):
            if o == "caller":
                matcher.append("$%s%d:ident" % (prefix, i))
                args.append(nm)
                ps.append("$%s%d" % (prefix, i))
            else:
                ps.append(nm)
        return matcher, args, ps
    o1, n1 = mixed()
    o2, n2 = mixed()
    m1, a1, p1 = render(o1, n1, "p")
    m2, a2, p2 = render(o2, n2, "q")
    L = ["macro_rules! make_trait {", "    (%s) => {" % ", ".join(["$tr:ident", "$timpl:ident"] + m1),
         "        #[::entrait::entrait($timpl, delegate_by = %s)] /*@inv*/" % ("ref" if dynamic else "DelegateTr"),
         "        pub trait $tr { fn m0(&self, %s) -> ::std::string::String; }" % ", ".join("%s: i32" % x for x in p1),
         "    };", "}", "make_trait!(%s);" % ", ".join(["Tr", "TrImpl"] + a1)]
    fid = "%s::TargetA::m0" % cid
    L += ["pub struct TargetA;", "macro_rules! make_impl {", "    (%s) => {" % ", ".join(["$ty:ident"] + m2),
          "        #[::entrait::entrait%s] /*@impl_TargetA*/" % ("(ref)" if dynamic else ""),
          "        impl TrImpl for $ty { fn m0<D>(deps: &D, %s) -> ::std::string::String { ::vrt::enter(\"%s\", ::vrt::tn(deps), ::vrt::addr(deps), &[%s]); ::std::format!(\"%s\", %s) } }" % (
              ", ".join("%s: i32" % x for x in p2), fid, ", ".join("&%s as &dyn ::core::fmt::Debug" % x for x in p2), "|".join("{}" for _ in p2), ", ".join(p2)),
          "    };", "}", "make_impl!(%s);" % ", ".join(["TargetA"] + a2)]
    if dynamic:
        L.append("pub struct AppD { pub t: ::std::boxed::Box<dyn TrImpl<AppD> + ::core::marker::Send + ::core::marker::Sync> }")
        L.append("impl ::core::convert::AsRef<dyn TrImpl<AppD>> for AppD { fn as_ref(&self) -> &(dyn TrImpl<AppD> + 'static) { &*self.t } }")
        ctor, aty = "AppD { t: ::std::boxed::Box::new(TargetA) }", "AppD"
    else:
        L.append("pub struct App0; impl DelegateTr<Self> for App0 { type Target = TargetA; }")
        ctor, aty = "App0", "App0"
    vals = ", ".join("%di32" % (101 + i) for i in range(n))
    D = ["pub fn run() {", "    let app0 = ::entrait::Impl::new(%s);" % ctor,
         '    ::vrt::fact("app0_addr", ::vrt::addr(&app0)); ::vrt::fact("app0_tn", ::vrt::tn(&app0));',
         '    ::vrt::phase("direct:a0:m0"); let r = TargetA::m0(&app0, %s); ::vrt::result(&r); ::vrt::record_polls();' % vals,
         '    ::vrt::phase("trait:a0:m0"); let r = app0.m0(%s); ::vrt::result(&r); ::vrt::record_polls();' % vals, "}"]
    meta = {"dynamic": dynamic, "targets": ["TargetA"], "apps": [(aty, "TargetA", ctor)], "nontrivial": True, "opts": [], "async_trait": None,
            "async_methods": [], "no_send": False, "methods": ["macro_rules m0 trait names=%s/%s impl names=%s/%s" % (n1, o1, n2, o2)],
            "calls": [{"label": "a0:m0", "app": 0, "fn": fid, "args": [str(101 + i) for i in range(n)], "async": False, "nested": [], "others": []}]}
    return Case(cid, "\n".join(L + D) + "\n", meta=meta)


def check_case(c, rep):
    m = c.meta
    if c.removed is not None:
        d = (c.removed["diags"] or [{}])[0]
        rep.violation(c.id, "compile:%s:%s" % (d.get("code"), d.get("message", "")[:70]), "does not compile: %s" % d.get("message", "")[:300])
        return
    rec = c.runrec.get("bin")
    if not rec:
        raise core.Inconclusive("no run record for %s" % c.id)
    if rec.get("crash") or rec.get("panic"):
        rep.violation(c.id, "crash-or-panic", "case died: %s" % (rec.get("crash") or rec.get("panic"))[:300])
        return
    f = rec["facts"]
    ph = {p["label"]: p for p in rec["phases"]}
    for call in m["calls"]:
        d, t = ph["direct:" + call["label"]], ph["trait:" + call["label"]]
        tn, addr = f["app%d_tn" % call["app"]], f["app%d_addr" % call["app"]]

        def ok(p):
            evs = p["events"]
            own = [e for e in evs if e["fn"] == call["fn"]]
            foreign = [e["fn"] for e in evs if any(e["fn"].startswith(o) for o in call["others"])]
            if foreign:
                return "a competing target was reached: %s" % foreign
            if len(own) != 1 or not evs or evs[0]["fn"] != call["fn"]:
                return "selected fn %s ran %d times (events: %s)" % (call["fn"], len(own), [e["fn"] for e in evs])
            e = evs[0]
            if e["tn"] != tn or str(e["addr"]) != addr:
                return "dependency argument is (%s, %s), expected the caller's &Impl<App> (%s, %s)" % (e["tn"], e["addr"], tn, addr)
            if e["args"] != call["args"]:
                return "arguments %s, expected %s" % (e["args"], call["args"])
            rest = evs[1:]
            if [x["fn"] for x in rest] != call["nested"]:
                return "nested dependency calls %s, expected %s" % ([x["fn"] for x in rest], call["nested"])
            if any((x["tn"] != tn and not m.get("leaf_helpers")) or str(x["addr"]) != addr for x in rest):
                return "nested calls did not receive the same &Impl<App>"
            return None
        bad = ok(d)
        if bad:
            raise core.Inconclusive("harness: direct call %s/%s off: %s" % (c.id, call["label"], bad))
        bad = ok(t)
        if bad:
            rep.violation(c.id, "delegation:" + bad.split(":")[0][:40], "%s: %s" % (call["label"], bad), {"direct": d, "trait": t})
            continue
        if t["result"] != d["result"]:
            rep.violation(c.id, "result-differs", "%s returned %s, selected fn returns %s" % (call["label"], t["result"], d["result"]))
            continue
        if call["async"] and int(t["kv"].get("polls", 0)) < 2:
            raise core.Inconclusive("async fn did not suspend in %s" % c.id)
        rep.bump("calls_compared")
        rep.bump("trace_events", len(t["events"]) + len(d["events"]))
    rep.bucket("delegation", "dynamic" if m["dynamic"] else "static")
    rep.bucket("targets", str(len(m["targets"])))
    rep.count(c.sig(), m["nontrivial"])
    rep.sample({"case": c.id, "dynamic": m["dynamic"], "methods": m["methods"], "apps": m["apps"],
                "trait_phase": [p for p in rec["phases"] if p["label"].startswith("trait:")][:1]}, limit=3)


KNOWN_PIN2_SRC = """
#[::entrait::entrait(TrImpl, delegate_by = DelegateTr)] /*@inv*/
pub trait Tr { fn m(self: &Self, a: i32) -> i32; }
pub struct Target;
#[::entrait::entrait]
impl TrImpl for Target { fn m<D>(deps: &D, a: i32) -> i32 { a } }
pub struct App; impl DelegateTr<Self> for App { type Target = Target; }
pub fn run() {}
"""

KNOWN_PIN3_SRC = """
#[::entrait::entrait(TrImpl, delegate_by = DelegateTr)] /*@inv*/
pub trait Tr { fn pick(&self, other: &str) -> &str; }
pub struct Target;
#[::entrait::entrait]
impl TrImpl for Target { fn pick<'a, D>(deps: &'a D, other: &str) -> &'a str { "n" } }
pub fn run() {}
"""

KNOWN_PIN_SRC = """
#[::entrait::entrait(TrImpl, delegate_by = ref)] /*@inv*/
pub trait Tr { fn name<'a>(&'a self) -> &'a str; }
pub struct Target;
#[::entrait::entrait(ref)]
impl TrImpl for Target { fn name<'a, D>(deps: &'a D) -> &'a str { "n" } }
pub fn run() {}
"""


def lifetime_where_case(cid, rng):
    """Delegated trait whose method relates two lifetimes in its where clause (`where 'a: 'b`, the body relies on it); two
    competing targets; static or dynamic selection; the predicate alone or next to bounds on the dependency parameter."""
    dynamic = rng.random() < 0.5
    is_async = rng.random() < 0.3
    asy = "async " if is_async else ""
    at = "#[::async_trait::async_trait]\n" if (is_async and dynamic) else ""
    deps_form = rng.choice(["impl", "generic", "generic_where", "hrtb"])
    L = ["#[::entrait::entrait(pub Dep)] fn dep<D>(deps: &D, x: usize) -> usize { x + 1 }"]
    if deps_form == "hrtb":
        # one higher-ranked where predicate on the dependency with several bounds that all use the bound lifetime
        L.append("pub trait HrA<'q> {} pub trait HrB<'q> {} impl<'q, T> HrA<'q> for ::entrait::Impl<T> {} impl<'q, T> HrB<'q> for ::entrait::Impl<T> {}")
    L.append("#[::entrait::entrait(PickImpl, delegate_by = %s)] /*@inv*/" % ("ref" if dynamic else "DelegatePick"))
    L.append("%spub trait Pick { %sfn pick<'a, 'b>(&self, long: &'a str, short: &'b str) -> &'b str where 'a: 'b; }" % (at, asy))
    for t, bias in (("Ta", 0), ("Tb", 100)):
        if deps_form == "impl":
            g, d, w = "<'a, 'b>", "&impl Dep", "where 'a: 'b"
        elif deps_form == "generic":
            g, d, w = "<'a, 'b, D: Dep>", "&D", "where 'a: 'b"
        elif deps_form == "hrtb":
            g, d, w = "<'a, 'b, D: Dep>", "&D", rng.choice(["where for<'q> D: HrA<'q> + HrB<'q>, 'a: 'b", "where 'a: 'b, for<'q, 'r> D: HrA<'q> + HrB<'r> + HrA<'r>"])
        else:
            g, d, w = "<'a, 'b, D>", "&D", rng.choice(["where D: Dep, 'a: 'b", "where 'a: 'b, D: Dep"])
        L.append("pub struct %s;" % t)
        L.append("#[::entrait::entrait%s]\n%simpl PickImpl for %s {" % ("(ref)" if dynamic else "", at, t))
        L.append("    pub %sfn pick%s(deps: %s, long: &'a str, short: &'b str) -> &'b str %s { if deps.dep(long.len()) > short.len() + %d { long } else { short } }" % (asy, g, d, w, bias))
        L.append("}")
    if dynamic:
        sync = " + ::core::marker::Sync" if is_async else ""
        L.append("pub struct App(pub ::std::boxed::Box<dyn PickImpl<App> + ::core::marker::Send + ::core::marker::Sync>);")
        L.append("impl ::core::convert::AsRef<dyn PickImpl<App>%s> for App { fn as_ref(&self) -> &(dyn PickImpl<App>%s + 'static) { &*self.0 } }" % (sync, sync))
        mk = lambda t: "App(::std::boxed::Box::new(%s))" % t
        apps = [("App", mk("Ta")), ("App", mk("Tb"))]
    else:
        L.append("pub struct AppA; impl DelegatePick<Self> for AppA { type Target = Ta; }")
        L.append("pub struct AppB; impl DelegatePick<Self> for AppB { type Target = Tb; }")
        apps = [("AppA", "AppA"), ("AppB", "AppB")]
    w = (lambda c: "::vrt::block_on(%s)" % c) if is_async else (lambda c: c)
    D = ["pub fn run() {", '    ::vrt::phase("lt-where");']
    for k, (_ty, ctor) in enumerate(apps):
        D.append("    { let app = ::entrait::Impl::new(%s); let long = ::std::string::String::from(\"longer\"); let r = { let short = ::std::string::String::from(\"s\"); %s.len() }; ::vrt::kv(\"r%d\", r); }" % (
            ctor, w("app.pick(&long, &short)"), k))
    D.append("}")
    return Case(cid, "\n".join(L + D) + "\n", meta={"family": "lifetime_where", "dynamic": dynamic, "async": is_async, "nontrivial": True, "want": {"r0": "6", "r1": "1"}})


def check_lifetime_where(c, rep):
    if c.removed is not None:
        d = (c.removed["diags"] or [{}])[0]
        rep.violation(c.id, "lifetime-where:compile:%s" % d.get("code"), "an impl-block fn with a lifetime predicate in its where clause (%s selection) does not compile: %s" % (
            "dynamic" if c.meta["dynamic"] else "static", d.get("message", "")[:300]))
        return
    rec = c.runrec.get("bin")
    if not rec or rec.get("panic") or rec.get("crash"):
        raise core.Inconclusive("no run record for %s: %s" % (c.id, rec))
    kv = dict({p_["label"]: p_ for p_ in rec["phases"]}.get("lt-where", {}).get("kv", {}))
    if kv != c.meta["want"]:
        rep.violation(c.id, "lifetime-where:behaviour", "results %s, expected %s (the selected target decides)" % (kv, c.meta["want"]))
        return
    rep.bump("lifetime_where_cases_ok")
    rep.count(c.sig(), True)


def run(tier, seed):
    rep = core.Report(PROP, tier, seed)
    rep.rule = ("random delegated traits (1-4 methods incl. same-signature pairs, lifetimes, async with/without async_trait) with 2-3 "
                "competing target types carrying identical method names, static (`delegate_by = DelegateTr`) and dynamic (`delegate_by = ref`, "
                "`#[entrait(ref)]`) selection, two apps selecting different targets, impl fns with 0-2 further entrait dependencies they "
                "call. non-trivial = >= 2 targets and (>= 2 methods or two same-typed adjacent params)")
    n = 300 if tier == "quick" else 3000
    rng = core.rng_for(PROP, seed)
    def one(i):
        if rng.random() < 0.1:
            return hygiene_case("c07_%04d" % i, rng)
        dyn = rng.random() < 0.5
        # a fifth of the static cases: `?Send` with impl-block futures that really are not Send
        ns = (not dyn) and rng.random() < 0.4
        return build_case("c07_%04d" % i, rng, dynamic=dyn, force_async=ns, no_send=ns)
    cases = [one(i) for i in range(n)]
    ltw = [lifetime_where_case("c07w_%03d" % i, rng) for i in range(24 if tier == "quick" else 240)]
    pin = Case("c07known_dyn_borrow", KNOWN_PIN_SRC, meta={"pin": "dyn_borrow_from_deps"})
    pin2 = Case("c07known_typed_receiver", KNOWN_PIN2_SRC, meta={"pin": "typed_receiver_with_target"})
    st = selftest.case("selftest_c07")
    ws = core.Workspace(PROP, "x", deps=("async-trait",))
    pin3 = Case("c07known_elided_return_lifetime", KNOWN_PIN3_SRC, meta={"pin": "elided_return_lifetime_static"})
    ws.extend(cases + ltw + [st, pin, pin2, pin3])
    ws.write()
    b = ws.build()
    ws.run(b["exes"])
    selftest.verify(st)
    for c in cases:
        check_case(c, rep)
    for c in ltw:
        check_lifetime_where(c, rep)
    for pn in (pin, pin2, pin3):
        if pn.removed is not None:
            d = (pn.removed["diags"] or [{}])[0]
            rep.violation(pn.id, "compile:%s:%s" % (d.get("code"), d.get("message", "")[:70]), "does not compile: %s" % d.get("message", "")[:300],
                          pinned=pn.meta["pin"])
    rep.bump("fixpoint_rounds", ws.rounds)
    core.floors(rep, calls_compared=n, trace_events=2 * n)
    return rep.finish({c.id: c for c in cases + ltw})
