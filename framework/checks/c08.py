"""C08 - module mode: the trait's methods are exactly the module's non-private functions.
Oracle: the generator's ground truth (which items are directly-contained fns with a visibility
qualifier, in source order) vs the ordered method list of the recorded trait; a compiled
sub-corpus is also run under the C01 oracle (every method callable from the parent scope)."""
import itertools
import hashlib
from .. import core, tok, selftest
from ..core import Case
from ..gen import soup
from ..gen.fncases import FnCaseBuilder
from . import c01

PROP = "C08"

VIS_SPELLINGS = ["pub", "pub(crate)", "pub(super)", "pub(self)", "pub(in crate)", "pub(in super)"]
QUALS = ["", "async", "unsafe", "const", "extern \"C\"", "async unsafe", "const unsafe", "unsafe extern \"C\"", "const unsafe extern \"C\"", "extern"]

# compile-safe distractors for the compiled sub-corpus
SAFE_OTHERS = [
    "fn private_one() -> i32 { 1 }",
    "pub struct Holder; impl Holder { pub fn in_impl(&self) -> i32 { 2 } pub async fn in_impl_async(&self) {} }",
    "pub const WITH_FN: i32 = { const fn nested_in_const() -> i32 { 3 } nested_in_const() };",
    "pub mod nested { pub fn in_nested<D>(deps: &D) -> i32 { 4 } }",
    "macro_rules! def_fn { ($n:ident) => { pub fn $n() -> i32 { 5 } }; } def_fn!(made_by_macro); def_fn! { made_by_macro_braced }",
    "pub trait LocalTrait { fn req(&self); fn prov(&self) -> i32 { 6 } }",
    "pub static NAME: &str = \"pub fn not_a_fn() {}\";",
    "pub type FnAlias = fn(u8) -> u8;",
    "pub enum E { A, B(u8) }",
    "unsafe extern \"C\" { pub fn ext_decl(x: u8) -> u8; }",   # (`unsafe extern`: required in edition 2024, accepted in 2021)
    "async fn private_async() {}",
    "pub use self::nested_b::deep as renamed; pub mod nested_b { pub fn deep() {} }",
    "#[allow(dead_code)] const fn private_const() -> i32 { 7 }",
    "#[allow(dead_code)] fn private_iter() -> impl Iterator<Item = u32> { 0..1 }",
    "pub struct Page<T = u32> { pub t: T }",
    "pub const AFTER_EQ: u8 = 1;",
    "#[allow(dead_code)] fn private_where<T>(t: T) -> T where T: Clone, { t }",
    "pub struct WhereS<T> where T: Clone, { pub t: T } impl<T> WhereS<T> where T: Clone, { pub fn in_impl_w(&self) {} }",
]


def vis_fn(rng, name, i):
    v = rng.choice(VIS_SPELLINGS)
    q = rng.choice(QUALS)
    deps = rng.choice([d for d in soup.DEPS if "Concrete" not in d[1] and "(u8" not in d[1] and "[u8" not in d[1]])
    attrs = rng.sample(soup.FN_ATTRS, rng.randint(0, 2))
    if rng.random() < 0.12:
        # a visible fn that is entraited on its own as well (a second, nested invocation): still a method of the module trait
        attrs.insert(rng.randint(0, len(attrs)), rng.choice(["#[::entrait::entrait(pub Inner%d)]", "#[entrait(Inner%d)]", "#[::entrait::entrait_export(pub Inner%d, ?Send)]"]) % i)
    ps = rng.sample([p for p in soup.PARAMS if "impl " not in p or "const" not in q], rng.randint(0, 3))
    body = "{ " + " ".join(rng.sample(soup.STMTS, rng.randint(0, 3))) + " }"
    sig = "%s %s fn %s%s(%s) %s %s" % (v, q, name, deps[0], ", ".join([deps[1]] + ps), rng.choice(["", "-> u8", "-> ()"]) if "async" in q else rng.choice(soup.RETS), deps[2])
    return "\n".join(attrs + [" ".join(sig.split()) + " " + body])


def gated(name, item_text):
    """Truth entry of a visible fn: its name followed by its `#[cfg(..)]` attributes (spaces removed), in source order."""
    import re
    head = item_text.split(" fn ")[0]
    gates = re.findall(r"#\[(cfg(?:_attr)?\((?:[^\[\]]|\[[^\]]*\])*\))\]", head)
    # (a cfg_attr is a gate only when it carries nothing but cfg(..): `cfg_attr(pred, cfg(x))`)
    gates = [g for g in gates if g.startswith("cfg(") or re.match(r"^cfg_attr\(.*, cfg\([^,]*\)\)$", g)]
    return name + "".join("#" + g.replace(" ", "") for g in gates)


def gen_module(rng, cid, n_items=None):
    items = []
    truth = []
    n = n_items if n_items is not None else rng.randint(0, 25)
    k = 0
    for i in range(n):
        r = rng.random()
        if r < 0.3:
            name = "vf%d" % k
            k += 1
            if rng.random() < 0.15:
                # cfg-alternatives: two visible fns of the same name, one per configuration (each is a fn of the module, each gets
                # its own - equally gated - method); adjacent or with other items in between
                pair = ["#[cfg(any())]", "#[cfg(not(any()))]"] if rng.random() < 0.5 else ["#[cfg(all())]", "#[cfg(not(all()))]"]
                # (the gate is the first attribute, or follows docs / other attributes)
                pre = [rng.choice(["", "", "/// docs first\n", "#[inline]\n", "#[allow(unused)] #[doc(hidden)]\n"]) for _ in range(2)]
                items.append(pre[0] + pair[0] + "\n" + vis_fn(rng, name, i))
                truth.append(gated(name, items[-1]))
                if rng.random() < 0.4:
                    items.append(rng.choice(soup.MOD_ITEMS_OTHER))
                items.append(pre[1] + pair[1] + "\n" + vis_fn(rng, name, i))
                truth.append(gated(name, items[-1]))
                continue
            if rng.random() < 0.1:
                # gated through a cfg_attr that carries nothing but cfg(..): mirrored as written (it keeps the fn when its predicate is false)
                g = rng.choice(["#[cfg_attr(any(), cfg(any()))]", "#[cfg_attr(all(), cfg(all()))]", "#[cfg_attr(feature = \"lean\", cfg(feature = \"diag\"))]",
                                "#[cfg_attr(not(test), cfg(not(miri)))]"])
                items.append(rng.choice(["", "/// docs first\n"]) + g + "\n" + vis_fn(rng, name, i))
                truth.append(gated(name, items[-1]))
                continue
            items.append(vis_fn(rng, name, i))
            truth.append(gated(name, items[-1]))
        elif r < 0.4:
            items.append(rng.choice(["fn priv%d<D>(deps: &D) {}" % i, "async fn priv%d() {}" % i, "unsafe fn priv%d() {}" % i,
                                     "const fn priv%d() {}" % i, "extern \"C\" fn priv%d() {}" % i,
                                     "pub fn bodyless%d<D>(deps: &D);" % i, "pub(crate) async fn bodyless%d<D>(deps: &D) -> u8;" % i]))
        else:
            items.append(rng.choice(soup.MOD_ITEMS_OTHER))
    attrs = rng.sample(["/// module docs", "#[allow(dead_code)]", "#[cfg(all())]"], rng.randint(0, 1))
    if rng.random() < 0.15:
        # inner attributes open the module body
        items = rng.sample(soup.INNER_ATTRS, rng.randint(1, 2)) + items
    src = "#[::entrait::entrait(%sTr)] /*@inv*/\n%s\n%s mod the_mod {\n%s\n}\n" % (
        rng.choice(["", "pub ", "pub(crate) "]), "\n".join(attrs), rng.choice(["", "pub", "pub(crate)"]), "\n".join("    " + it.replace("\n", "\n    ") for it in items))
    kinds = len({it.split("(")[0].split("{")[0].strip().split(" ")[0] for it in items})
    return Case(cid, src, meta={"truth": truth, "n_items": n, "nontrivial": len(truth) >= 2 and kinds >= 4}, run=False, expect="expand")


ALPHABET2 = (
    ["pub fn A<D>(deps: &D) {}", "pub(crate) async fn A<D>(deps: &D) {}", "pub(in crate) const unsafe extern \"C\" fn A<D>(deps: &D) {}",
     "#[inline] pub(super) unsafe fn A(deps: &impl Clone) -> u8 { 0 }", "fn A<D>(deps: &D) {}", "pub fn A<D>(deps: &D);",
     "pub(self) extern fn A<D>(deps: &D) { let x = |a: u8| { a }; }"] + [
        "pub struct Unit;", "pub const C0: u8 = { fn inner() -> u8 { 1 } 2 };", "impl Unit { pub fn method(&self) {} }",
        "macro_rules! def_fn { ($n:ident) => { pub fn $n() {} }; }", "def_fn! { braced }", "def_fn!(parens);",
        "pub mod nested { pub fn in_nested<D>(deps: &D) {} }", "extern \"C\" { pub fn ext_decl(x: u8) -> u8; }",
        "pub type Alias = fn(u8) -> u8;", "pub static S0: &str = \"pub fn not_a_fn() {}\";", "use super::*;",
        "pub trait LocalTrait { fn req(&self); }", "pub enum E { A, B(u8) }", "static CLOSURE: fn() = || { fn f() {} };",
        "fn private_iter() -> impl Iterator<Item = u32> { 0..1 }", "pub struct Page<T = u32> { pub t: T }",
        "fn private_where<T>(t: T) -> T where T: Clone, { t }", "impl<T> Wh<T> where T: Clone, { pub fn in_impl_w(&self) {} }"])


def exhaustive_sequences(maxlen):
    cases = []
    idx = 0
    for n in range(1, maxlen + 1):
        for seq in itertools.product(range(len(ALPHABET2)), repeat=n):
            items, truth = [], []
            for pos, ai in enumerate(seq):
                t = ALPHABET2[ai].replace(" A<", " f%d<" % pos).replace(" A(", " f%d(" % pos)
                items.append(t)
                if ai in (0, 1, 2, 3, 6):
                    truth.append("f%d" % pos)
            src = "#[::entrait::entrait(Tr)] /*@inv*/\nmod the_mod {\n%s\n}\n" % "\n".join("    " + it for it in items)
            cases.append(Case("c08e_%06d" % idx, src, meta={"truth": truth, "n_items": n, "nontrivial": len(truth) >= 1 and n >= 2}, run=False, expect="expand"))
            idx += 1
    return cases


def macro_mod_case(cid, rng):
    """An entraited module stamped out by macro_rules!: whole items, fn bodies, visibilities and names arrive as
    fragments (None-delimited groups) between ordinary visible fns."""
    frag_items = ["struct Marker;", "use ::core::fmt::Debug;", "const X: u32 = 1;", "static Y: u8 = 2;", "type Al = u8;", "struct S {}", "pub struct U;", "fn private_in_fragment() {}", "impl S0 { pub fn inside(&self) {} }", "pub const K: u8 = 1;",
                  "pub fn visible_in_fragment<D>(deps: &D) {}"]
    matcher, args, body, truth = [], [], [], []
    n = rng.randint(2, 6)
    k = 0
    for i in range(n):
        kind = rng.choice(["plain", "plain", "item", "block", "vis", "name", "ty"])
        if kind == "plain":
            body.append("pub fn p%d<D>(deps: &D) {}" % i)
            truth.append("p%d" % i)
        elif kind == "item":
            it = rng.choice(frag_items)
            matcher.append("$i%d:item" % k)
            args.append(it.rstrip(";") if False else it)
            body.append("$i%d" % k)
            if it.startswith("pub fn visible_in_fragment"):
                truth.append("visible_in_fragment")
            k += 1
        elif kind == "block":
            matcher.append("$b%d:block" % k)
            args.append(rng.choice(["{ }", "{ let _x = 1; }"]))
            body.append("pub fn b%d<D>(deps: &D) $b%d" % (i, k))
            truth.append("b%d" % i)
            k += 1
        elif kind == "vis":
            v = rng.choice(["pub", "pub(crate)", ""])
            matcher.append("$v%d:vis" % k)
            args.append(v)
            body.append("$v%d fn v%d<D>(deps: &D) {}" % (k, i))
            if v:
                truth.append("v%d" % i)
            k += 1
        elif kind == "name":
            matcher.append("$n%d:ident" % k)
            args.append("named%d" % i)
            body.append("pub(crate) fn $n%d<D>(deps: &D) {}" % k)
            truth.append("named%d" % i)
            k += 1
        else:
            matcher.append("$t%d:ty" % k)
            args.append(rng.choice(["u8", "Vec<(u8, u8)>", "[u8; 2]"]))
            body.append("pub fn t%d<D>(deps: &D, x: $t%d) {}" % (i, k))
            truth.append("t%d" % i)
            k += 1
    if any(a.startswith("impl S0") for a in args):
        body.insert(0, "pub struct S0;")
    src = "macro_rules! make_mod {\n    (%s) => {\n        #[::entrait::entrait(Tr)] /*@inv*/\n        mod the_mod {\n%s\n        }\n    };\n}\nmake_mod!(%s);\n" % (
        "; ".join(matcher), "\n".join("            " + b for b in body), "; ".join(args))
    # a `vis` fragment that is empty must be followed by a separator the matcher can see: `;` does that
    return Case(cid, src, meta={"truth": truth, "n_items": n, "nontrivial": True, "family": "macro_rules"}, run=False, expect="expand")


def method_names(rec, trait_name="Tr"):
    out, inp = rec["output"], rec["input"]
    bi = tok.find_brace(inp)
    # the generated trait is the last trait item of the emitted module (the module's own items come first; macro_rules
    # fragments may be re-emitted without their invisible group, so positions are not compared here - C02 does that)
    for it in reversed(tok.split_items(out[bi]["s"])):
        k = tok.item_kind(it)
        if k["kind"] == "trait" and k["name"] == trait_name and "s" in it[-1]:
            names = []
            for m in tok.split_items(it[-1]["s"]):
                mk = tok.item_kind(m)
                if mk["kind"] == "fn":
                    # a method is gated exactly like its fn: the name is followed by the mirrored cfg attributes, in order
                    gates = ["#" + tok.render(a).replace(" ", "") for a in mk["attrs"] if tok.attr_path(a) in ("cfg", "cfg_attr")]
                    names.append(mk["name"] + "".join(gates))
            return names
    return None


def check_expand_case(c, rep):
    recs = [r for r in c.records if r["line"] == c.marks["inv"]]
    if not recs:
        rep.bump("cases_without_record")
        rep.bucket("no_record_reason", (c.diags[0]["message"][:60] if c.diags else "?"))
        return
    r = recs[0]
    if r["status"] != "end":
        rep.violation(c.id, "no-output", "expansion did not return: %s" % r.get("panic"))
        return
    if "compile_error" in tok.idents(r["output"][:8]):
        rep.violation(c.id, "rejected", "module rejected: %s" % [d["message"][:100] for d in c.diags][:2])
        return
    got = method_names(r)
    if got is None:
        rep.violation(c.id, "no-trait", "no trait found in the module")
        return
    want = c.meta["truth"]
    if got != want:
        rep.violation(c.id, "methods-differ:%s" % ("order" if sorted(got) == sorted(want) else "set"),
                      "trait methods %s, the module's non-private fns are %s" % (got, want), {"input": tok.render(r["input"], 4000)})
    rep.bump("modules_checked")
    rep.bump("methods_seen", len(got))
    rep.count(hashlib.sha1(repr(tok.leaves(r["input"])).encode()).hexdigest(), c.meta["nontrivial"])
    rep.sample({"case": c.id, "module": c.src[:600], "truth": want, "observed_methods": got}, limit=3)


def run(tier, seed):
    rep = core.Report(PROP, tier, seed)
    rep.rule = ("module bodies of 0-25 shuffled items drawn from: visible fns (every visibility spelling x qualifier combination, attributes), "
                "private fns, body-less declarations, and ~40 other item kinds containing `fn` tokens (impls, nested mods, extern blocks, "
                "macro_rules and macro calls with each delimiter, consts with nested fns, statics with fn text, type aliases of fn-pointer type ...); "
                "expansion-only, method list of the recorded trait vs generator truth; all sequences up to length L over a 25-item alphabet; "
                "a compiled sub-corpus run under the C01 oracle. non-trivial = >= 2 visible fns mixed with >= 4 item kinds")
    n = 400 if tier == "quick" else 6000
    rng = core.rng_for(PROP, seed)
    cases = [gen_module(rng, "c08_%05d" % i) for i in range(n)]
    cases += [macro_mod_case("c08m_%05d" % i, rng) for i in range(n // 5)]
    ex = exhaustive_sequences(2 if tier == "quick" else 3)
    ws = core.Workspace(PROP, "x", expand_only=True)
    ws.extend(cases + ex)
    ws.write()
    ws.build()
    for c in cases + ex:
        check_expand_case(c, rep)
    rep.extra["exhaustive_sequence_length"] = 2 if tier == "quick" else 3
    rep.extra["exhaustive_sequences"] = len(ex)
    # compiled sub-corpus: modules with distractors, every method called from the parent scope through the trait
    m = 120 if tier == "quick" else 1200
    comp = []
    for i in range(m):
        cid = "c08c_%04d" % i
        b = FnCaseBuilder(cid, rng, mode="mod", options=[], macro="entrait")
        b.build()
        # interleave distractor items inside the module
        j0 = next(k for k, l in enumerate(b.lines) if "fn private_helper" in l)
        extra = rng.sample(SAFE_OTHERS, rng.randint(2, 6))
        for e in extra:
            pos = rng.randint(j0, len(b.lines) - 1)
            b.lines.insert(pos, "    " + e)
        c = b.case()
        c.meta["trait_name"] = b.trait_name
        c.meta["truth"] = [f["name"] for f in c.meta["fns"]]
        comp.append(c)
    st = selftest.case("selftest_c08")
    ws2 = core.Workspace(PROP, "c")
    ws2.extend(comp + [st])
    ws2.write()
    b2 = ws2.build()
    ws2.run(b2["exes"])
    selftest.verify(st)
    for c in comp:
        c01.check_case(c, rep)
        if c.removed is None:
            recs = [r for r in c.records if r["line"] == c.marks["inv"] and r["status"] == "end"]
            if recs:
                got = method_names(recs[0], c.meta["trait_name"])
                if got != c.meta["truth"]:
                    rep.violation(c.id, "methods-differ:compiled", "trait methods %s, expected %s" % (got, c.meta["truth"]))
                rep.bump("compiled_modules_checked")
    core.floors(rep, modules_checked=(n + len(ex)) // 2, compiled_modules_checked=m // 2)
    return rep.finish({c.id: c for c in cases + ex + comp})
