"""C01 - calling a generated trait method is calling the original function.
Oracle: differential twin (direct call vs trait call on the same app) + generator truth."""
from .. import core, selftest
from ..gen.fncases import FnCaseBuilder, macro_case

PROP = "C01"

OPTION_POOL_OFF = [[], [], ["export"], ["export = false"], ["?Send"], ["unimock = false"], ["mockall = false"],
                   ["mock_api = SubjectMock"], ["no_deps = false"], ["export", "?Send"], ["debug = false"],
                   ["unimock = false", "mock_api = SubjectMock"], ["mockall = false", "export = true"]]
# (C01 only) a mock option that is inert in this build (gated by cfg(test), the mockall crate is not needed) but makes the trait
# "mockable": it is then implemented for Impl<T> only, through a differently written impl header
MOCKALL_INERT = [["mockall"], ["mockall = true", "?Send"], ["mockall", "mock_api = SubjectMock"]]
OPTION_POOL_ON = OPTION_POOL_OFF + [["mock_api = SubjectMock"], ["mock_api = SubjectMock", "?Send"],
                                    ["unimock = true"], ["unimock"], ["mock_api = SubjectMock", "unimock = true"]]


# When the unimock derivation is really expanded in this build (feature/option on, a mock_api
# given, exporting), the signature also has to be something *unimock* supports; that is
# unimock's class, not entrait's, so those cases use a conservative signature profile.
UNIMOCK_SAFE = dict(
    deps_kinds=["generic_ref"] * 3 + ["impl_ref"] * 2 + ["no_deps"],
    rets=["owned", "owned", "unit"], p_const=0.0, p_generic_param=0.0, p_unsafe=0.0, p_extern=0.0,
    types=["i32", "i32", "u8", "bool", "str", "String", "tup", "N", "N2", "S", "opt", "arr"],
    allow_sink=False, allow_raw_fn_names=False,   # (unimock derives item names from the fn names)   # (the sink parameter needs `HasName` of the deps, which Unimock does not implement)
)


def unimock_expanded(macro, opts, feature):
    on = feature
    for o in opts:
        o = o.replace(" ", "")
        if o in ("unimock", "unimock=true"):
            on = True
        if o == "unimock=false":
            on = False
    has_api = any(o.startswith("mock_api") for o in opts)
    return on and has_api


def gen_cases(n, seed, unimock, label, profile=None):
    cases = []
    rng = core.rng_for(PROP, seed, label)
    for i in range(n):
        cid = "c01%s_%04d" % (label, i)
        opts = list(rng.choice((OPTION_POOL_ON if unimock else OPTION_POOL_OFF) + MOCKALL_INERT))
        rng.shuffle(opts)
        macro = rng.choice(["entrait", "entrait", "entrait_export"])
        if any(o.startswith("mockall") and "false" not in o for o in opts):
            macro = "entrait"   # (exported, the automock attribute would really be expanded)
        prof = dict(profile or {})
        prof.setdefault("p_lt_relation", 0.4)   # (outlives relations between the fn's lifetimes, inline or as where predicates)
        if unimock_expanded(macro, opts, unimock):
            prof.update(UNIMOCK_SAFE)
        if rng.random() < 0.12:
            # fns stamped out by macro_rules!: identifiers of one signature live in different hygiene contexts
            cases.append(macro_case(cid, rng))
            continue
        b = FnCaseBuilder(cid, rng, profile=prof, options=opts, macro=macro, unimock_feature=unimock).build()
        cases.append(b.case())
    return cases


def check_case(c, rep, tag="bin", pinned=None):
    m = c.meta
    if c.removed is not None:
        d = (c.removed["diags"] or [{}])[0]
        rep.violation(c.id, "compile:%s:%s" % (d.get("code"), d.get("message", "")[:80]),
                      "accepted input does not compile: %s" % d.get("message", "")[:300], pinned=pinned)
        return
    rec = c.runrec.get(tag)
    if not rec:
        raise core.Inconclusive("no run record for %s" % c.id)
    if rec.get("crash"):
        rep.violation(c.id, "crash", rec["crash"], pinned=pinned)
        return
    if rec.get("panic"):
        rep.violation(c.id, "panic:" + rec["panic"][:60], "case panicked: " + rec["panic"][:300], pinned=pinned)
        return
    facts = rec["facts"]
    ph = {p["label"]: p for p in rec["phases"]}
    for call in m["calls"]:
        d = ph.get("direct:" + call["label"])
        t = ph.get("trait:" + call["label"])
        if d is None or t is None:
            raise core.Inconclusive("phase missing in %s" % c.id)
        rep.bump("trace_events", len(d["events"]) + len(t["events"]))
        # generator truth on the direct path (validates the harness itself)
        exp_tn = ""
        exp_addr = "0"
        if call["deps_usable"]:
            if call["deps_kind"] == "concrete_val":
                exp_tn, exp_addr = facts["plain_tn"], (facts["plain_tag"] if call["recv"] == "plain" else facts["app_tag"])
            elif call["deps_kind"].startswith("concrete"):
                exp_tn, exp_addr = facts["plain_tn"], (facts["plain_addr"] if call["recv"] == "plain" else facts["app_addr"])
            elif call["deps_kind"].endswith("_val"):
                exp_tn, exp_addr = facts["app_tn"], facts["app_tag"]
            else:
                exp_tn, exp_addr = facts["app_tn"], facts["app_addr"]
        def first_ok(p):
            if not p["events"]:
                return "no event"
            e = p["events"][0]
            if e["fn"] != call["fn"]:
                return "reached %s instead of %s" % (e["fn"], call["fn"])
            if e["tn"] != exp_tn:
                return "dependency type %s, expected %s" % (e["tn"], exp_tn)
            if str(e["addr"]) != str(exp_addr):
                return "dependency identity %s, expected %s" % (e["addr"], exp_addr)
            if e["args"] != call["args"]:
                return "arguments %s, expected %s" % (e["args"], call["args"])
            own = [x for x in p["events"] if x["fn"] == call["fn"]]
            if len(own) != 1:
                return "function ran %d times" % len(own)
            rest = [x["fn"] for x in p["events"][1:]]
            if rest != call["nested"]:
                return "nested calls %s, expected %s" % (rest, call["nested"])
            return None
        bad = first_ok(d)
        if bad:
            raise core.Inconclusive("harness: direct path of %s/%s does not match generator truth: %s" % (c.id, call["label"], bad))
        bad = first_ok(t)
        if bad:
            rep.violation(c.id, "trait-path:" + bad.split(",")[0][:40], "trait call %s: %s" % (call["label"], bad),
                          {"direct": d, "trait": t}, pinned=pinned)
            continue
        def norm(evs):
            # nested calls made through a by-value dependency see the address of a copy
            if call["deps_kind"].endswith("_val"):
                return [evs[0]] + [dict(e, addr=0) for e in evs[1:]]
            return evs
        if norm(t["events"]) != norm(d["events"]):
            rep.violation(c.id, "events-differ", "trait call %s: events differ from direct call" % call["label"],
                          {"direct": d, "trait": t}, pinned=pinned)
            continue
        if t["result"] != d["result"] or t["kv"].get("rtn") != d["kv"].get("rtn"):
            rep.violation(c.id, "result-differs", "trait call %s returned %s (%s), direct %s (%s)" % (
                call["label"], t["result"], t["kv"].get("rtn"), d["result"], d["kv"].get("rtn")), pinned=pinned)
            continue
        if call["async"]:
            if int(t["kv"].get("polls", 0)) < 2 or int(d["kv"].get("polls", 0)) < 2:
                raise core.Inconclusive("async body did not suspend in %s" % c.id)
            rep.bump("async_calls")
        rep.bump("calls_compared")
        rep.bucket("deps_kinds", call["deps_kind"])
    for f in m["fns"]:
        rep.bucket("arity", str(f["arity"]))
        for fm in f["forms"]:
            rep.bucket("param_forms", fm)
    rep.bucket("mode", m["mode"])
    rep.bucket("options", ",".join(sorted(m["options"])) or "-")
    rep.count(c.sig(), m.get("nontrivial", False))
    rep.sample({"case": c.id, "invocation": [l for l in c.src.split("\n") if "/*@inv*/" in l][:1],
                "fns": [f["sig"] for f in m["fns"]], "calls": m["calls"][:2],
                "observed_trait_phase": [p for p in rec["phases"] if p["label"].startswith("trait:")][:1]}, limit=3)


def run(tier, seed):
    rep = core.Report(PROP, tier, seed)
    rep.rule = ("random fn/mod cases from the shared signature grammar x option sets x both cargo feature settings; "
                "each call compared direct vs trait on the same app (events: fn id, dependency type name, dependency "
                "address/tag, Debug of every bound argument; result; result type). distinct = hash of case source; "
                "non-trivial = two same-typed adjacent params, same-signature sibling fns, by-value deps or async")
    n = 160 if tier == "quick" else 1500
    allc = {}
    for unimock in (False, True):
        label = "on" if unimock else "off"
        cases = gen_cases(n, seed, unimock, label)
        if tier != "quick":
            # arity stress: up to 40 parameters
            cases += gen_cases(60, seed, unimock, label + "w", profile={"max_arity": 40, "p_same_type": 0.8})
        st = selftest.case("selftest_c01" + label)
        ws = core.Workspace(PROP, label, unimock=unimock, deps=())
        ws.extend(cases + [st])
        ws.write()
        b = ws.build()
        ws.run(b["exes"])
        selftest.verify(st)
        for c in cases:
            check_case(c, rep)
            allc[c.id] = c
        rep.bump("expansion_records", sum(len(c.records) for c in cases))
        rep.bump("fixpoint_rounds", ws.rounds)
    core.floors(rep, calls_compared=n // 2, trace_events=n)
    rep.assumptions = ["generated bodies are parametric in their argument values; values are sampled, one distinct value per parameter",
                       "type_name / address identity of the dependency as observed inside the user fn body"]
    return rep.finish(allc)
