"""C02 - append-only: the annotated fn / mod / impl items are emitted unchanged.
Oracle: span-free token comparison of recorder input vs output (prefix / containment)."""
from .. import core, tok
from ..gen import expand_corpus

PROP = "C02"


def rejected(out):
    ids = tok.idents(out[:8])
    return "compile_error" in ids


def body_spacing_equal(a, b):
    """Compare Joint/Alone spacing inside every brace group nested in a / b (same shape assumed)."""
    def braces(ts, acc):
        for t in ts:
            if "g" in t:
                if t["g"] == "{":
                    acc.append(t["s"])
                else:
                    braces(t["s"], acc)
        return acc
    ba, bb = braces(a, []), braces(b, [])
    if len(ba) != len(bb):
        return False
    return all(tok.leaves(x, spacing=True) == tok.leaves(y, spacing=True) for x, y in zip(ba, bb))


def kinds_of(items):
    return [tok.item_kind(it)["kind"] for it in items]


FLAT_NOTES = {"n": 0}


def sig_leaves(ts):
    """Leaves with None-delimited groups flattened: those invisible delimiters are an artefact of macro_rules fragment
    capture; syn drops them around lifetimes and paths when it prints a signature again. Inside bodies (brace groups)
    None-delimited groups are still compared as they are (body_spacing_equal)."""
    return tok.leaves(ts, flatten_none=True)


def note_flatten(a, b):
    if tok.leaves(a) != tok.leaves(b):
        FLAT_NOTES["n"] += 1


def check_fn(inp, out):
    li, lo = sig_leaves(inp), sig_leaves(out)
    note_flatten(inp, out[:len(inp)])
    if lo[:len(li)] != li:
        # locate first difference for the report
        k = next((i for i, (x, y) in enumerate(zip(li, lo)) if x != y), min(len(li), len(lo)))
        return "fn-not-prefix", "output does not start with the input tokens; first difference at leaf %d: input %s / output %s" % (
            k, li[k:k + 6], lo[k:k + 6])
    if not body_spacing_equal(inp[-1:], out[len(inp) - 1:len(inp)]):
        return "fn-body-spacing", "punctuation spacing (or None-delimited grouping) inside the fn body changed"
    rest = out[len(inp):]
    ks = kinds_of(tok.split_items(rest))
    if ks != ["trait", "impl"]:
        return "fn-generated-shape", "generated part after the fn is %s, expected [trait, impl]" % ks
    return None


def check_mod(inp, out, attr):
    bi = tok.find_brace(inp)
    if bi is None or bi != len(inp) - 1:
        return "harness", "module input does not end with a brace group"
    if tok.leaves(inp[:bi]) != tok.leaves(out[:bi]) or bi >= len(out) or not tok.is_g(out[bi], "{"):
        return "mod-header", "module header changed: %s -> %s" % (tok.render(inp[:bi]), tok.render(out[:bi + 1], 200))
    inner_i, inner_o = inp[bi]["s"], out[bi]["s"]
    li, lo = sig_leaves(inner_i), sig_leaves(inner_o)
    if lo[:len(li)] != li:
        k = next((i for i, (x, y) in enumerate(zip(li, lo)) if x != y), min(len(li), len(lo)))
        return "mod-items-not-prefix", "module items changed; first difference at leaf %d: input %s / output %s" % (k, li[k:k + 6], lo[k:k + 6])
    # number of top-level output tokens that cover the input's leaves (flattening may change the top-level count)
    cut, acc = 0, 0
    while cut < len(inner_o) and acc < len(li):
        acc += len(sig_leaves(inner_o[cut:cut + 1]))
        cut += 1
    note_flatten(inner_i, inner_o[:cut])
    if not body_spacing_equal(inner_i, inner_o[:cut]):
        return "mod-body-spacing", "punctuation spacing (or None-delimited grouping) inside module item bodies changed"
    ks = kinds_of(tok.split_items(inner_o[cut:]))
    if ks != ["trait", "impl"]:
        return "mod-generated-shape", "generated part at the end of the module is %s, expected [trait, impl]" % ks
    # items that are not fns are opaque to the macro: they come back token for token, None-delimited groups (macro_rules fragments
    # at the top level of the item) included - only fn signatures are printed again by syn, which drops some of those groups
    ngroups = lambda it: sum(1 for t_ in it if t_.get("g") == "" and "s" in t_)
    for it_i, it_o in zip(tok.split_items(inner_i), tok.split_items(inner_o[:cut])):
        if tok.item_kind(it_i)["kind"] != "fn" and tok.leaves(it_i) != tok.leaves(it_o):
            return "mod-opaque-item-regrouped", "a non-fn item of the module lost / changed its None-delimited groups (%d -> %d): %s" % (ngroups(it_i), ngroups(it_o), tok.render(it_i, 200))
    after = out[bi + 1:]
    # `vis use mod_ident :: Trait ;`
    a_vis, ai = tok.vis_of(attr, 0)
    trait_ident = attr[ai]["i"] if ai < len(attr) and "i" in attr[ai] else None
    mod_ident = inp[bi - 1].get("i")
    exp = tok.leaves(a_vis) + ["i:use", "i:" + str(mod_ident), "p::", "p::", "i:" + str(trait_ident), "p:;"]
    if tok.leaves(after) != exp:
        return "mod-after", "after the module: %s, expected `%s use %s::%s;`" % (tok.render(after, 200), tok.render(a_vis), mod_ident, trait_ident)
    return None


def check_impl(inp, out):
    attrs_i, i = tok.split_attrs(inp)
    kept = [a for a in attrs_i if not tok.attr_path(a).split("::")[-1].startswith("async_trait")]
    j = i
    uns = []
    if tok.is_i(inp[j], "unsafe"):
        uns = [inp[j]]
        j += 1
    if not tok.is_i(inp[j], "impl"):
        return "harness", "not an impl input"
    bi = tok.find_brace(inp)
    head = inp[j + 1:bi]
    # split at top-level `for`
    fi = next((k for k, t in enumerate(head) if tok.is_i(t, "for")), None)
    if fi is None:
        return "harness", "no `for` in impl header"
    self_ty = head[fi + 1:]
    items = tok.split_items(out)
    if not items:
        return "impl-missing", "no output items"
    first = items[0]
    exp = []
    for a in kept:
        exp += [{"p": "#"}, {"g": "[", "s": a}]
    exp += uns + [inp[j]] + self_ty + [inp[bi]]
    if tok.leaves(first) != tok.leaves(exp):
        lf, le = tok.leaves(first), tok.leaves(exp)
        k = next((q for q, (x, y) in enumerate(zip(lf, le)) if x != y), min(len(lf), len(le)))
        return "impl-inherent-differs", "inherent impl differs from the input block at leaf %d: output %s / expected %s" % (k, lf[k:k + 6], le[k:k + 6])
    if not body_spacing_equal(inp[bi]["s"], first[-1]["s"]):
        return "impl-body-spacing", "punctuation spacing inside impl item bodies changed"
    ks = kinds_of(items[1:])
    if ks != ["impl"]:
        return "impl-generated-shape", "generated part beside the impl block is %s, expected [impl]" % ks
    return None


def nontrivial(inp):
    attrs, i = tok.split_attrs(inp)
    if attrs:
        return True
    head = tok.idents(inp[i:i + 4])
    if any(x in head for x in ("pub", "async", "unsafe", "const", "extern")):
        return True
    lv = tok.leaves(inp[-1:])
    return len(lv) >= 20 and len(set(lv)) >= 6


def check_record(r, rep, cid, pinned=None):
    """Returns True if the record was an accepted input that was checked."""
    if r["status"] != "end":
        return False  # panics are C15's business
    inp, out = r["input"], r["output"]
    if rejected(out):
        rep.bump("rejected_inputs")
        return False
    k = tok.item_kind(inp)
    kind = k["kind"]
    if kind == "fn":
        res = check_fn(inp, out)
    elif kind == "mod":
        res = check_mod(inp, out, r["attr"])
    elif kind == "impl":
        res = check_impl(inp, out)
    elif kind == "trait":
        return False  # C09
    else:
        return False
    rep.bucket("kinds", kind)
    if res and res[0] == "harness":
        raise core.Inconclusive("C02 checker cannot read its input: %s (%s)" % (res[1], cid))
    if res:
        rep.violation(cid, res[0], res[1], {"attr": tok.render(r["attr"]), "input": tok.render(inp, 3000), "output": tok.render(out, 6000)}, pinned=pinned)
    return True


def run(tier, seed):
    rep = core.Report(PROP, tier, seed)
    rep.rule = ("expansion-only corpus of fn / mod / impl inputs rich in attributes, visibilities, qualifiers, where clauses and "
                "token-soup bodies; recorder input vs output compared leaf by leaf (prefix / containment, spacing inside brace "
                "groups). distinct = hash of input tokens; non-trivial = carries an attribute or non-default qualifier/visibility, "
                "or a body of >= 20 tokens of >= 6 kinds")
    n = 1500 if tier == "quick" else 20000
    rng = core.rng_for(PROP, seed)
    cases = expand_corpus.corpus("c02", n, rng)
    pin = core.Case("c02known_empty_where", "#[::entrait::entrait(Tr)] /*@inv*/\nfn f<D>(deps: &D) where { let x = 1; }\n",
                    meta={"pin": "empty_where"}, run=False, expect="expand")
    ws = core.Workspace(PROP, "x", unimock=False, expand_only=True, vattr=True)
    ws.extend(cases + [pin])
    ws.write()
    ws.build()
    by = {c.id: c for c in cases}
    seen = 0
    import hashlib
    for c in cases:
        if not c.records:
            rep.bump("cases_without_record")
            rep.bucket("no_record_reason", (c.diags[0]["message"][:60] if c.diags else "?"))
            continue
        for r in c.records:
            if check_record(r, rep, c.id):
                seen += 1
                sig = hashlib.sha1(repr(tok.leaves(r["input"])).encode()).hexdigest()
                rep.count(sig, nontrivial(r["input"]))
                rep.sample({"case": c.id, "attr": tok.render(r["attr"]), "input": tok.render(r["input"], 700),
                            "generated_tail": tok.render(r["output"][len(r["input"]):], 500)}, limit=3)
    for r in pin.records:
        check_record(r, rep, pin.id, pinned="empty_where")
    by[pin.id] = pin
    rep.bump("expansion_records", sum(len(c.records) for c in cases))
    rep.extra["inputs_whose_signature_lost_none_delimited_groups"] = FLAT_NOTES["n"]
    core.floors(rep, evaluations=n // 3)
    return rep.finish(by)
