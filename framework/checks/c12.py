"""C12 - async methods: exact Output type, Send by default, opt-out honoured.
Channels: run-time probes in a *generic* context (only the bounds the trait declares are visible
there): is the returned future declared Send? what is its Output type?; the C01/C06/C07 trace
oracles for completion with the same result; recorder for async_trait re-application; compiler
(thorough) for negative probes."""
import re
from .. import core, tok, selftest
from ..core import Case
from ..gen.fncases import FnCaseBuilder, random_fn
from . import c01, c06, c07

PROP = "C12"

FN_PROFILE = dict(p_async=1.0, p_unsafe=0.0, p_extern=0.0, p_const=0.0,
                  deps_kinds=["generic_ref"] * 4 + ["impl_ref"] * 3 + ["no_deps", "concrete_ref", "generic_val", "impl_val"],
                  types=["i32", "i32", "u8", "bool", "str", "String", "tup", "N", "opt", "arr"],
                  forms=["plain"] * 6 + ["wild", "destr"],
                  rets=["unit", "owned", "owned", "borrow_deps", "borrow_arg", "generic", "impl_dbg"])


def fnmod_case(cid, rng, no_send):
    opts = ["?Send"] if no_send else []
    if rng.random() < 0.3:
        opts.append(rng.choice(["export", "mockall = false", "unimock = false"]))
    macro = rng.choice(["entrait", "entrait_export"])
    if macro == "entrait" and "export" not in opts and rng.random() < 0.35:
        # a mock derivation that is gated by cfg(test) (inert in this build) must not change the declared futures
        opts.append(rng.choice(["mockall", "mockall = true", "mock_api = SubjMock, unimock = true"]))
    rng.shuffle(opts)
    b = FnCaseBuilder(cid, rng, profile=FN_PROFILE, options=opts, macro=macro)
    b.build()
    for f in b.fns:
        f.is_async = True
        if no_send:
            f.body_extra = "let __rc = ::std::rc::Rc::new(1u8); ::vrt::yield_once().await; let _ = *__rc;"
    # re-render the subject with the forced qualifiers
    b.lines = [l for l in b.lines]
    i = next(k for k, l in enumerate(b.lines) if "/*@inv*/" in l)
    head = b.lines[:i + 1]
    if b.mode == "fn":
        b.lines = head + [b.fns[0].source("")]
    else:
        modhead = b.lines[i + 1:i + 4]
        b.lines = head + modhead + [f.source("    ") for f in b.fns] + ["}"]
    drv = b.driver()
    tg_args = getattr(b, "trait_generic_args", [])
    tpath = b.trait_name + (("<" + ", ".join(tg_args) + ">") if tg_args else "")
    P = ["fn __c12_probe<__X: %s>(x: &__X) {" % tpath]
    extra = []
    for fi, f in enumerate(b.fns):
        if f.deps_kind.startswith("concrete") or f.by_value():
            # (a fn taking its dependency by value is driven by the differential driver only; next to borrowing fns of the same
            # module it asks `Send` of the application on top of `Sync`, never instead of it)
            continue
        s1, e1, _d = f.call_args(70, "p%d" % fi)
        P += ["    " + s for s in s1]
        P.append('    { let fut = x.%s(%s); ::vrt::fact("send:%s", ::vrt::value_is!(&fut ; ::core::marker::Send)); ::vrt::fact("out:%s", ::vrt::output_type_name(&fut)); }' % (
            f.name, ", ".join(e1), f.name, f.name))
        s2, e2, _d = f.call_args(70, "q%d" % fi)
        extra += ["    " + s for s in s2]
        dargs = e2 if f.deps_kind == "no_deps" else ["&app"] + e2
        extra.append('    { let fut = %s%s(%s); ::vrt::fact("dout:%s", ::vrt::output_type_name(&fut)); }' % (b.prefix, f.name, ", ".join(dargs), f.name))
    P.append("}")
    drv = drv[:-1] + ["    __c12_probe(&app);"] + extra + ["}"]
    src = ["", __import__("framework.gen.fncases", fromlist=["APP_DEF"]).APP_DEF] + b.support() + b.lines + P + drv
    meta = dict(b.meta)
    meta.update({"family": "fnmod", "no_send": no_send, "async_methods": [f.name for f in b.fns if not f.deps_kind.startswith("concrete") and not f.by_value()],
                 "async_trait": None, "nontrivial": True, "rets": [f.ret for f in b.fns]})
    return Case(cid, "\n".join(src) + "\n", meta=meta)


def check_probes(c, rep):
    m = c.meta
    rec = c.runrec.get("bin")
    if not rec or rec.get("panic") or rec.get("crash") or c.removed is not None:
        return
    f = rec["facts"]
    if m.get("async_trait"):
        return
    for name in m["async_methods"]:
        if "send:" + name not in f:
            raise core.Inconclusive("probe facts missing for %s.%s" % (c.id, name))
        want = not m["no_send"]
        rep.bump("send_probes")
        if (f["send:" + name] == "true") != want:
            rep.violation(c.id, "declared-send:%s:%s" % (m["family"], f["send:" + name]),
                          "future of `%s` is declared Send = %s in a generic context, expected %s (options %s)" % (name, f["send:" + name], want, m.get("options") or m.get("opts")))
        if f["out:" + name] != f["dout:" + name]:
            rep.violation(c.id, "output-type", "Output of trait method `%s` is %s, the function's is %s" % (name, f["out:" + name], f["dout:" + name]))
        rep.bump("output_types_compared")
        rep.bucket("output_types", re.sub(r"c12\w+::", "", f["out:" + name])[:40])


def async_trait_check(c, rep):
    """(R) async fn kept and the user's async_trait attribute re-applied to generated traits and impls."""
    at = c.meta.get("async_trait")
    if not at or c.removed is not None:
        return
    want = tok.render([]) or None
    for r in c.records:
        if r["status"] != "end":
            continue
        kind = tok.item_kind(r["input"])["kind"]
        in_attrs = [a for a in tok.item_kind(r["input"])["attrs"] if tok.attr_path(a).split("::")[-1] == "async_trait"]
        if not in_attrs:
            continue
        user = tok.leaves(in_attrs[0])
        items = tok.split_items(r["output"])
        for idx, it in enumerate(items):
            k = tok.item_kind(it)
            ats = [a for a in k["attrs"] if tok.attr_path(a).split("::")[-1] == "async_trait"]
            inherent = kind == "impl" and idx == 0
            if k["kind"] in ("trait", "impl") and not inherent:
                if k["kind"] == "trait" and k["name"] and k["name"].startswith("Delegate"):
                    continue
                if not ats:
                    rep.violation(c.id, "async_trait-missing:%s" % k["kind"], "generated %s `%s` lacks the async_trait attribute" % (k["kind"], tok.render(it[:12])))
                elif any(tok.leaves(a) != user for a in ats):
                    rep.violation(c.id, "async_trait-altered", "async_trait attribute re-applied as `%s`, written as `%s`" % (tok.render(ats[0]), tok.render(in_attrs[0])))
                else:
                    rep.bump("async_trait_reapplications")
                    rep.bucket("async_trait_copies_per_item", str(len(ats)))
                if k["kind"] == "trait":
                    body = it[-1]["s"]
                    for mi in tok.split_items(body):
                        mk = tok.item_kind(mi)
                        if mk["kind"] == "fn" and "impl" in tok.idents(mi) and "Future" in tok.idents(mi):
                            rep.violation(c.id, "async_trait-rewritten", "async fn was rewritten although async_trait is present: %s" % tok.render(mi, 200))
            if inherent and ats:
                rep.violation(c.id, "async_trait-on-inherent", "async_trait attribute left on the inherent impl block")


NEG_SRC = """
#[::entrait::entrait(pub Subj%s)] /*@inv*/
async fn subj<D>(deps: &D, a: i32) -> i32 { let rc = ::std::rc::Rc::new(a); ::vrt::yield_once().await; *rc }
pub fn run() { let app = ::entrait::Impl::new(()); let r = ::vrt::block_on(app.subj(5)); ::vrt::phase("x"); ::vrt::result(&r); }
"""
NEG_TRAIT_SRC = """
#[::entrait::entrait(%s)] /*@inv*/
pub trait Tr { async fn m(&self, a: i32) -> i32; }
pub struct P;
impl Tr for P { async fn m(&self, a: i32) -> i32 { let rc = ::std::rc::Rc::new(a); ::vrt::yield_once().await; *rc } }
pub fn run() { let app = ::entrait::Impl::new(P); let r = ::vrt::block_on(app.m(5)); ::vrt::phase("x"); ::vrt::result(&r); }
"""


def run(tier, seed):
    rep = core.Report(PROP, tier, seed)
    rep.rule = ("async fn/mod cases (unit/owned/borrowed-from-deps/borrowed-from-arg/generic returns), async leaf traits (Self/ref/Borrow), "
                "async impl blocks (static, dynamic with async_trait), each with and without ?Send (the ?Send bodies hold an Rc across an "
                "await); probes in a generic context read the declared Send-ness and the Output type of every method's future; the "
                "C01/C06/C07 trace oracles decide completion and result; recorder decides async_trait re-application; negative compile "
                "probes. non-trivial = every case (all are async)")
    n = 200 if tier == "quick" else 2000
    rng = core.rng_for(PROP, seed)
    cases = []
    for i in range(n):
        cases.append(fnmod_case("c12f_%04d" % i, rng, no_send=rng.random() < 0.4))
    for i in range(n):
        sel = rng.choice(["default", "Self", "ref", "Borrow"])
        c = c06.build_case("c12t_%04d" % i, rng, sel, force_async=True, no_send=(rng.random() < 0.4 and sel in ("default", "Self")), probes=True)
        c.meta["family"] = "trait"
        cases.append(c)
    for i in range(n):
        dyn = rng.random() < 0.4
        c = c07.build_case("c12i_%04d" % i, rng, dynamic=dyn, force_async=True, no_send=(rng.random() < 0.4 and not dyn), probes=True)
        c.meta["family"] = "implblock"
        cases.append(c)
    # negative / positive compile probes: an Rc held across an await
    negs = []
    for k, (src, opt_send, opt_nosend) in enumerate([(NEG_SRC, "", ", ?Send"), (NEG_TRAIT_SRC, "", "?Send")]):
        negs.append(Case("c12neg_%d_send" % k, src % opt_send, meta={"expect_error": True}))
        negs.append(Case("c12neg_%d_nosend" % k, src % opt_nosend, meta={"expect_error": False}))
    st = selftest.case("selftest_c12")
    ws = core.Workspace(PROP, "x", deps=("async-trait",))
    ws.extend(cases + negs + [st])
    ws.write()
    b = ws.build()
    ws.run(b["exes"])
    selftest.verify(st)
    for c in cases:
        fam = c.meta["family"]
        if fam == "fnmod":
            c01.check_case(c, rep)
        elif fam == "trait":
            c06.check_case(c, rep)
        else:
            c07.check_case(c, rep)
        check_probes(c, rep)
        async_trait_check(c, rep)
        rep.bucket("families", fam + ("/?Send" if c.meta["no_send"] else "") + ("/async_trait" if c.meta.get("async_trait") else ""))
    for c in negs:
        if c.meta["expect_error"]:
            ok = c.removed is not None and any("cannot be sent between threads safely" in d["message"] for d in c.removed["diags"])
            if not ok:
                rep.violation(c.id, "non-send-future-accepted", "a future holding an Rc across an await was accepted without ?Send: %s" % (c.removed,))
            else:
                rep.bump("negative_probes_confirmed")
        else:
            rec = c.runrec.get("bin") or {}
            res = [p["result"] for p in rec.get("phases", [])]
            if c.removed is not None or res != ["5"]:
                rep.violation(c.id, "?Send-not-honoured", "with ?Send a non-Send future must be accepted and run: removed=%s result=%s" % (c.removed, res))
            else:
                rep.bump("positive_probes_confirmed")
    core.floors(rep, send_probes=n, output_types_compared=n, async_trait_reapplications=n // 10, negative_probes_confirmed=2, positive_probes_confirmed=2)
    rep.assumptions = ["in a generic fn only the bounds declared on the trait method's return type are visible, so the value probe reads the declaration"]
    return rep.finish({c.id: c for c in cases + negs})
