"""C04 - dependency bounds bubble up exactly: implemented iff the deps are satisfied.
Oracle: reference model of bound satisfaction evaluated on a family of probe application types
(each missing exactly one bound or one auto trait), compared with run-time availability probes;
plus the recorded impl header (fixed bounds, where-clause bound multiset)."""
from .. import core, tok, selftest
from ..core import Case

PROP = "C04"
NB = 4          # entraited leaf traits B0..B3
STD = {4: "::core::clone::Clone", 5: "::core::fmt::Debug"}     # plus two std traits as bounds 4 and 5
HR = 6          # a leaf trait with a lifetime parameter, always required through a higher-ranked bound: for<'q> BL<'q>
ALLB = list(range(NB)) + sorted(STD) + [HR]

PRELUDE = "\n".join(
    ["#[::entrait::entrait] pub trait B%d { fn b%d(&self) -> i32; }" % (k, k) for k in range(NB)] + [
        "macro_rules! implb { ($t:ty; $($b:ident $m:ident),*) => { $(impl $b for $t { fn $m(&self) -> i32 { 0 } })* }; }",
        "#[::entrait::entrait] pub trait BL<'q> { fn bl(&self) -> &'q str; }",
    ])


def probe_types(declared):
    """name -> (definition, set of leaf traits implemented, sync, send)"""
    allb = list(ALLB)
    P = {}
    def mk(name, fields, bs):
        impls = ", ".join("B%d b%d" % (k, k) for k in bs if k < NB)
        derives = [d for k, d in ((4, "Clone"), (5, "Debug")) if k in bs]
        head = ("#[derive(%s)] " % ", ".join(derives)) if derives else ""
        hr = ("\nimpl<'q> BL<'q> for %s { fn bl(&self) -> &'q str { \"\" } }" % name) if HR in bs else ""
        return "%spub struct %s { %s }\nimplb!(%s; %s);%s" % (head, name, fields, name, impls, hr)
    P["Full"] = (mk("Full", "pub x: u8", allb), set(allb), True, True)
    for k in sorted(set(declared)):
        bs = [b for b in allb if b != k]
        P["Miss%d" % k] = (mk("Miss%d" % k, "pub x: u8", bs), set(bs), True, True)
    P["FullNotSync"] = (mk("FullNotSync", "pub c: ::core::cell::Cell<u8>", allb), set(allb), False, True)
    ns = [b for b in allb if b != 4]   # a MutexGuard cannot be cloned
    P["FullNotSend"] = (mk("FullNotSend", "pub g: ::core::option::Option<::std::sync::MutexGuard<'static, ()>>", ns), set(ns), True, False)
    P["Nothing"] = (mk("Nothing", "pub x: u8", []), set(), True, True)
    return P


def bname(b):
    if b == HR:
        return "for<'q> BL<'q>"
    return STD.get(b, "B%d" % b)


def bounds_text(bs):
    return " + ".join(bname(b) for b in bs)


def make_fn(rng, name, bs, byval, form):
    """One fn declaring bounds `bs` on its deps in the given form; the body does not use them."""
    # a third of the fns are async (futures are Send by default: that must not add `Send` to the requirements of a by-ref app)
    return ("async " if rng.random() < 0.33 else "") + make_sync_fn(rng, name, bs, byval, form)


def make_wrapped_fn(name, bs, form):
    """The by-reference dependency type written in parentheses: still by reference, still no `Send` requirement."""
    if form == "impl":
        inner = "impl " + (bounds_text(bs) if bs else "::core::marker::Sized")
        return "fn %s(deps: (&(%s))) -> i32 { 0 }" % (name, inner)
    g = "<D%s>" % ((": " + bounds_text(bs)) if bs else "")
    return "fn %s%s(deps: (&D)) -> i32 { 0 }" % (name, g)


def make_outlives_fn(name, bs, form):
    """An outlives bound on the dependency parameter that names a lifetime of the fn: implied by `&'a D`, never a trait bound of the impl."""
    bt = " + ".join([bname(b) for b in bs] + ["'a"])
    if form == "inline":
        return "fn %s<'a, D: %s>(deps: &'a D) -> i32 { 0 }" % (name, bt)
    return "fn %s<'a, D>(deps: &'a D) -> i32 where D: %s { 0 }" % (name, bt)


def make_relaxed_fn(name, bs, form):
    bt = " + ".join(["?Sized"] + [bname(b) for b in bs])
    if form == "inline":
        return "fn %s<D: %s>(deps: &D) -> i32 { 0 }" % (name, bt)
    if form == "where":
        return "fn %s<D>(deps: &D) -> i32 where D: %s { 0 }" % (name, bt)
    return "fn %s(deps: &(impl %s)) -> i32 { 0 }" % (name, bt)


def make_sync_fn(rng, name, bs, byval, form):
    if not byval and form in ("inline", "impl") and rng.random() < 0.1:
        return make_wrapped_fn(name, bs, form)
    if not byval and form in ("inline", "where") and rng.random() < 0.08:
        return make_outlives_fn(name, bs, form)
    if not byval and form in ("inline", "where", "impl") and not (form == "impl" and not bs) and rng.random() < 0.12:
        # a relaxed bound on the dependency (`?Sized`): legal on the fn, never a requirement of the impl
        return make_relaxed_fn(name, bs, form)
    body = "{ 0 }"
    dv = "D" if byval else "&D"
    if form == "inline":
        g = "<D%s>" % ((": " + bounds_text(bs)) if bs else "")
        return "fn %s%s(deps: %s) -> i32 %s" % (name, g, dv, body)
    if form == "where":
        if HR in bs and rng.random() < 0.6:
            # the binder written on the predicate instead of on the bound
            rest = [b for b in bs if b != HR]
            preds = ([("D: " + bounds_text(rest))] if rest else []) + ["for<'q> D: BL<'q>"]
            return "fn %s<D>(deps: %s) -> i32 where %s %s" % (name, dv, ", ".join(preds), body)
        w = (" where D: " + bounds_text(bs)) if bs else ""
        return "fn %s<D>(deps: %s) -> i32%s %s" % (name, dv, w, body)
    if form == "split":
        h = len(bs) // 2
        g = "<D%s>" % ((": " + bounds_text(bs[:h])) if bs[:h] else "")
        w = (" where D: " + bounds_text(bs[h:])) if bs[h:] else ""
        return "fn %s%s(deps: %s) -> i32%s %s" % (name, g, dv, w, body)
    if form == "split2":
        # two separate where predicates on the same parameter
        h = len(bs) // 2
        preds = [("D: " + bounds_text(x)) for x in (bs[:h], bs[h:]) if x]
        w = (" where " + ", ".join(preds)) if preds else ""
        return "fn %s<D>(deps: %s) -> i32%s %s" % (name, dv, w, body)
    # impl Trait
    inner = "impl " + (bounds_text(bs) if bs else "::core::marker::Sized")
    if byval:
        return "fn %s(deps: %s) -> i32 %s" % (name, inner, body)
    if len(bs) > 1:
        inner = "(" + inner + ")"
    return "fn %s(deps: &%s) -> i32 %s" % (name, inner, body)


OPTS_OFF = [([], False), ([], False), (["mockall = false"], False), (["mockall"], True), (["mockall = true"], True),
            (["unimock = false", "mock_api = SubjMock"], False), (["mock_api = SubjMock"], False), (["unimock = false"], False),
            (["?Send"], False), (["export = false"], False)]
OPTS_ON = [([], False), (["mock_api = SubjMock"], True), (["mock_api = SubjMock", "unimock = false"], False),
           (["unimock = false"], False), (["mockall = false"], False), (["mockall"], True), (["mockall = false", "mock_api = SubjMock"], True),
           (["unimock = true"], False), (["mock_api = SubjMock", "?Send"], True),
           # exported mock derivations are really expanded in this (non-test) build: the trait is implemented for the mock type too
           (["mock_api = SubjMock", "export"], True, "unimock"), (["mock_api = SubjMock", "export", "mockall"], True, "unimock"),
           (["mock_api = SubjMock", "export = true", "mockall = true", "unimock = true"], True, "unimock")]


def build_case(cid, rng, feature):
    choice = rng.choice(OPTS_ON if feature else OPTS_OFF)
    opts, mockable = choice[:2]
    mock_type = choice[2] if len(choice) > 2 else None
    opts = list(opts)
    rng.shuffle(opts)
    mode = rng.choice(["fn", "fn", "mod"])
    byval = rng.random() < 0.25
    forms = ["inline", "where", "split", "split2", "impl"]
    L = []
    if mode == "fn" and rng.random() < 0.1:
        # no dependency at all (`no_deps`): zero declared bounds, the fixed requirement stays what it is
        o2 = opts + [rng.choice(["no_deps", "no_deps = true"])]
        rng.shuffle(o2)
        L.append("#[::entrait::entrait(%s)] /*@inv*/" % ", ".join(["pub Subj"] + o2))
        L.append("%sfn subj(a: i32) -> i32 { a }" % ("async " if rng.random() < 0.33 else ""))
        declared, anyval, byval = [], False, False
        desc = [("no_deps", [], False)]
    elif mode == "fn":
        bs = rng.sample([b_ for b_ in ALLB if not (mock_type and b_ == 5)], rng.randint(0, 5))   # (`Unimock` is not `Debug`)
        form = rng.choice(forms)
        L.append("#[::entrait::entrait(%s)] /*@inv*/" % ", ".join(["pub Subj"] + opts))
        L.append(make_fn(rng, "subj", bs, byval, form))
        declared = list(bs)
        anyval = byval
        desc = [(form, bs, byval)]
    else:
        n = rng.randint(2, 4)
        L.append("#[::entrait::entrait(%s)] /*@inv*/" % ", ".join(["pub Subj"] + opts))
        L.append("pub mod subj_mod {\n    use super::*;")
        declared = []
        anyval = False
        desc = []
        for i in range(n):
            bs = rng.sample([b_ for b_ in ALLB if not (mock_type and b_ == 5)], rng.randint(0, 3))
            form = rng.choice(forms)
            bv = rng.random() < 0.15
            anyval = anyval or bv
            # (a fifth of the module fns sit behind an *enabled* cfg gate: they exist, and so do their bounds)
            gate = rng.choice(["#[cfg(all())] ", "#[cfg(not(any()))] ", "#[cfg_attr(any(), cfg(any()))] ", "/// docs\n    #[cfg(all())]\n    "]) if rng.random() < 0.2 else ""
            L.append("    " + gate + "pub " + make_fn(rng, "f%d" % i, bs, bv, form))
            declared += bs
            desc.append((form, bs, bv))
        L.append("}")
    # a further type parameter of the fn(s) is lifted to the trait (`trait Subj<X>`): the impl is still one for every qualifying
    # type (or for Impl<T> when mockable), whatever the shape of the trait's generics
    targ = ""
    if rng.random() < 0.15 and not any("no_deps" in d[0] for d in desc) and not mock_type:
        for k_, l_ in enumerate(L):
            if "fn subj<" in l_ or "fn f0<" in l_:
                L[k_] = l_.replace("fn subj<", "fn subj<X: ::core::marker::Send + 'static, ", 1).replace("fn f0<", "fn f0<X: ::core::marker::Send + 'static, ", 1)
                targ = "<u8>"
                break
            if "fn subj(" in l_ or "fn f0(" in l_:
                L[k_] = l_.replace("fn subj(", "fn subj<X: ::core::marker::Send + 'static>(", 1).replace("fn f0(", "fn f0<X: ::core::marker::Send + 'static>(", 1)
                targ = "<u8>"
                break
    P = probe_types(declared)
    for name, (definition, _i, _s, _n) in P.items():
        L.append(definition)
    D = ["pub fn run() {"]
    expect = {}
    need = set(declared)
    for name, (_d, impls, sync, send) in P.items():
        ok = need <= impls and sync and (send or not anyval)
        D.append('    ::vrt::fact("impl:%s", ::vrt::implements!(::entrait::Impl<%s>: Subj%s));' % (name, name, targ))
        D.append('    ::vrt::fact("bare:%s", ::vrt::implements!(%s: Subj%s));' % (name, name, targ))
        expect["impl:" + name] = ok
        expect["bare:" + name] = ok and not mockable
    if mock_type:
        # (the derived `impl Subj for Unimock` un-mocks by calling the fn on `Unimock`: rustc wants the fn's bounds of it)
        L.append("implb!(::unimock::Unimock; %s);" % ", ".join("B%d b%d" % (k, k) for k in range(NB)))
        L.append("impl<'q> BL<'q> for ::unimock::Unimock { fn bl(&self) -> &'q str { \"\" } }")
        D.append('    ::vrt::fact("mock:unimock", ::vrt::implements!(::unimock::Unimock: Subj%s));' % targ)
        expect["mock:unimock"] = True
    D.append("}")
    nt = len(set(declared)) >= 2 or (mode == "mod" and sum(1 for d in desc if d[1]) >= 2) or anyval
    meta = {"opts": opts, "mockable": mockable, "declared": declared, "byval": anyval, "expect": expect, "desc": desc,
            "mode": mode, "nontrivial": nt, "feature": feature}
    return Case(cid, "\n".join(L + D) + "\n", meta=meta)


def header_check(c, rep):
    """(R) impl generics are exactly EntraitT: Sync [+ Send] + 'static and the where clause lists exactly the declared bounds."""
    m = c.meta
    recs = [r for r in c.records if r["status"] == "end" and r["line"] == c.marks["inv"]]
    if not recs:
        raise core.Inconclusive("no record for %s" % c.id)
    r = recs[0]
    out, inp = r["output"], r["input"]
    if tok.item_kind(inp)["kind"] == "mod":
        bi = tok.find_brace(inp)
        items = tok.split_items(out[bi]["s"][len(inp[bi]["s"]):])
    else:
        items = tok.split_items(out[len(inp):])
    impl = next((it for it in items if tok.item_kind(it)["kind"] == "impl"), None)
    if impl is None:
        raise core.Inconclusive("impl not found in %s" % c.id)
    head = impl[:tok.find_brace(impl)]
    txt = tok.render(head)
    # generics: between the first `<` and the matching `>` before the trait name
    k = tok.item_kind(impl)["at"] + 1
    if not tok.is_p(head[k], "<"):
        rep.violation(c.id, "impl-generics-missing", "impl has no generics: %s" % txt)
        return
    depth, j = 0, k
    while j < len(head):
        if tok.is_p(head[j], "<"):
            depth += 1
        elif tok.is_p(head[j], ">"):
            depth -= 1
            if depth == 0:
                break
        j += 1
    first = tok.split_commas(head[k + 1:j])[0]
    if not tok.is_i(first[0], "EntraitT"):
        rep.violation(c.id, "impl-generics-shape", "first impl parameter is not EntraitT: %s" % txt)
        return
    bl = []
    cur = []
    for t in first[2:]:
        if tok.is_p(t, "+"):
            bl.append(cur)
            cur = []
        else:
            cur.append(t)
    bl.append(cur)
    names = sorted(("'" + x[-1]["i"]) if tok.is_p(x[0], "'") else x[-1]["i"] for x in bl if x)
    want = sorted(["Sync", "'static"] + (["Send"] if m["byval"] else []))
    if names != want:
        rep.violation(c.id, "fixed-bounds:%s" % "+".join(names), "fixed requirement on EntraitT is %s, expected %s" % (names, want))
    wi = next((i for i, t in enumerate(head) if tok.is_i(t, "where")), None)
    got = []
    if wi is not None:
        for pred in tok.split_commas(head[wi + 1:]):
            ci = next((i for i, t in enumerate(pred) if tok.is_p(t, ":") and not t.get("j")
                       and not (i > 0 and tok.is_p(pred[i - 1], ":") and pred[i - 1].get("j"))), None)
            if ci is None:
                continue
            for b in tok.render(pred[ci + 1:]).split("+"):
                got.append(b.replace(" ", ""))
    want_b = sorted([bname(b).replace(" ", "") for b in m["declared"]] + ["::core::marker::Sized"] * sum(1 for d in m["desc"] if d[0] == "impl" and not d[1]))
    if sorted(got) != want_b:
        rep.violation(c.id, "where-bounds", "impl where-clause bounds %s, declared %s" % (sorted(got), want_b), {"header": txt})
    rep.bump("impl_headers_checked")


def check_case(c, rep):
    m = c.meta
    if c.removed is not None:
        d = (c.removed["diags"] or [{}])[0]
        rep.violation(c.id, "compile:%s:%s" % (d.get("code"), d.get("message", "")[:70]), "does not compile: %s" % d.get("message", "")[:300])
        return
    rec = c.runrec.get("bin")
    if not rec or rec.get("panic") or rec.get("crash"):
        raise core.Inconclusive("no run record for %s: %s" % (c.id, rec))
    f = rec["facts"]
    bad = []
    for k, want in m["expect"].items():
        rep.bump("availability_probes")
        if f.get(k) != str(want).lower():
            bad.append((k, f.get(k), want))
    if bad:
        k, got, want = bad[0]
        rep.violation(c.id, "availability:%s:%s" % (k.split(":")[0] + ":" + k.split(":")[1].rstrip("0123456789"), got),
                      "`%s` implements Subj = %s, model says %s (declared bounds %s, by-value %s, mockable %s, options %s); %d probes disagree" % (
                          k, got, want, m["declared"], m["byval"], m["mockable"], m["opts"], len(bad)), {"facts": f, "expect": m["expect"]})
    header_check(c, rep)
    rep.count(c.sig(), m["nontrivial"])
    rep.bucket("forms", ",".join(sorted({d[0] for d in m["desc"]})))
    rep.bucket("mockable", str(m["mockable"]))
    rep.sample({"case": c.id, "source_head": c.src.split("pub struct")[0][-600:], "expect": m["expect"], "observed": f}, limit=3)


def run(tier, seed):
    rep = core.Report(PROP, tier, seed)
    rep.rule = ("0-4 leaf-trait bounds declared inline / in where / as impl A + B / split / in two predicates / spread over 2-4 module "
                "fns (bodies do not use them), by-ref and by-value receivers, all mock settings incl. `= false` forms, both feature "
                "settings; probe family: full, one type per missing bound, full-but-!Sync, full-but-!Send, nothing; each bare and wrapped "
                "in Impl<_>. non-trivial = >= 2 bounds, bounds from >= 2 module fns, or by-value")
    n = 300 if tier == "quick" else 3000
    by = {}
    for feature in (False, True):
        label = "on" if feature else "off"
        rng = core.rng_for(PROP, seed, label)
        cases = [build_case("c04%s_%04d" % (label, i), rng, feature) for i in range(n)]
        st = selftest.case("selftest_c04" + label)
        ws = core.Workspace(PROP, label, unimock=feature, deps=(("mockall", "unimock") if feature else ()), prelude=PRELUDE.replace("\n", " ") if False else "")
        for c in cases:
            c.src = PRELUDE + "\n" + c.src
            c.marks = {k: v + PRELUDE.count("\n") + 1 for k, v in c.marks.items()}
        ws.extend(cases + [st])
        ws.write()
        b = ws.build()
        ws.run(b["exes"])
        selftest.verify(st)
        for c in cases:
            check_case(c, rep)
            by[c.id] = c
    core.floors(rep, availability_probes=10 * n, impl_headers_checked=n)
    rep.assumptions = ["'static is checked on the recorded impl header only (region obligations are invisible to method probing)"]
    return rep.finish(by)
