"""C03 - every supported signature expands to compiling code with the same call type.
Channels: compiler diagnostics after fix-point compilation (including fn-pointer witness lines
that coerce both the function and the trait method to one pointer type), then the C01 oracle at
run time so that compiling-but-miswired is not missed."""
from .. import core, selftest
from ..gen.fncases import FnCaseBuilder
from . import c01

PROP = "C03"

PROFILE = dict(p_generic_param=0.45, p_lifetimes=0.4, p_const=0.2, p_unsafe=0.15, p_extern=0.12, p_async=0.3,
               p_lt_relation=0.5,
               rets=["owned", "owned", "unit", "borrow_deps", "borrow_deps", "borrow_arg", "borrow_arg", "generic"],
               deps_kinds=["generic_ref"] * 4 + ["impl_ref"] * 3 + ["generic_val", "impl_val", "concrete_ref", "concrete_ref", "concrete_val", "no_deps"])


def nontrivial(m):
    for f in m["fns"]:
        feats = 0
        s = f["sig"]
        feats += "'" in s
        feats += "<T" in s or "<U" in s or ", T" in s or ", U" in s
        feats += "const K" in s
        feats += " where " in s
        feats += f["ret"] in ("borrow_deps", "borrow_arg")
        feats += f["unsafe"] or f["extern"]
        feats += f["deps_kind"].endswith("_val")
        feats += f["async"]
        if feats >= 2:
            return True
    return False


def gen_cases(n, seed, unimock, label):
    cases = []
    rng = core.rng_for(PROP, seed, label)
    for i in range(n):
        cid = "c03%s_%04d" % (label, i)
        opts = list(rng.choice(c01.OPTION_POOL_ON if unimock else c01.OPTION_POOL_OFF))
        rng.shuffle(opts)
        macro = rng.choice(["entrait", "entrait", "entrait_export"])
        prof = dict(PROFILE)
        if c01.unimock_expanded(macro, opts, unimock):
            prof.update(c01.UNIMOCK_SAFE)
        b = FnCaseBuilder(cid, rng, profile=prof, options=opts, macro=macro, unimock_feature=unimock).build()
        c = b.case(witness=True)
        c.meta["nontrivial"] = nontrivial(c.meta)
        cases.append(c)
    return cases


# Hand-written gallery of signature shapes the random grammar does not reach ("any further parameters ... any return
# type"): (signature after `fn NAME`, body, call args, expected Debug of the result). `NAME`, `DEPS` are substituted.
GALLERY = [
    ("<D>(deps: &D, cb: impl Fn(i32) -> i32 + Send) -> i32", "{ cb(20) + 1 }", "|x| x * 2", "41"),
    ("<D, F>(deps: &D, cb: F, s: &str) -> usize where F: for<'x> Fn(&'x str) -> &'x str", "{ cb(s).len() }", "|x| &x[1..], \"hello\"", "4"),
    ("<D>(deps: &D, it: &mut dyn Iterator<Item = u8>) -> Option<u8>", "{ it.next() }", "&mut [7u8, 8].into_iter()", "Some(7)"),
    ("<D>(deps: &D, n: u8) -> impl Iterator<Item = u8> + 'static", "{ (0..n).map(|x| x * 2) }", "3", None),
    ("<D>(deps: &D, x: [u8; 4], y: &[u8], z: (u8, &str)) -> Result<Vec<u8>, Box<dyn ::std::error::Error + Send + Sync>>",
     "{ let mut v = x.to_vec(); v.extend_from_slice(y); v.push(z.0); v.push(z.1.len() as u8); Ok(v) }", "[1, 2, 3, 4], &[5, 6], (7, \"ab\")", None),
    ("<'a, D>(deps: &'a D, xs: &'a [&'a str]) -> impl Iterator<Item = &'a str> + 'a", "{ xs.iter().copied().filter(|s| s.len() > 1) }", "&[\"a\", \"bc\", \"def\"]", None),
    ("<D, T>(deps: &D, t: T) -> Vec<T::Item> where T: Iterator, T::Item: Clone", "{ t.collect() }", "[1u8, 2, 3].into_iter()", "[1, 2, 3]"),
    ("<D>(deps: &D, p: *const u8, f: fn(u8) -> u8, s: &'static str) -> (bool, u8, &'static str)", "{ (p.is_null(), f(2), s) }", "::core::ptr::null(), |x| x + 1, \"st\"", "(true, 3, \"st\")"),
    ("<D>(deps: &D, v: &mut Vec<u8>, k: u8) -> usize", "{ v.push(k); v.len() }", "&mut vec![1, 2], 9", "3"),
    ("<D>(deps: &D, o: Option<&mut i32>) -> i32", "{ if let Some(x) = o { *x += 1; *x } else { 0 } }", "Some(&mut 41)", "42"),
    ("<D>(deps: &D, b: Box<dyn Fn(u8) -> u8 + Send + Sync + 'static>) -> u8", "{ b(1) }", "Box::new(|x| x + 5)", "6"),
    ("<D, const N: usize>(deps: &D, a: [u8; N], b: [u8; N]) -> usize", "{ N + a.len() + b.len() }", "[1, 2], [3, 4]", "6"),
    ("<D, A, B>(deps: &D, a: A, b: B) -> (B, A) where A: Clone + Send, B: Clone + Send", "{ (b, a) }", "1u8, \"x\"", "(\"x\", 1)"),
    ("<D>(deps: &D, r: ::core::ops::Range<u8>, (lo, hi): (u8, u8), [x, y]: [u8; 2]) -> u8", "{ r.end - r.start + lo + hi + x + y }", "1..4, (1, 2), [3, 4]", "13"),
    ("<'a, 'b, D>(deps: &'a D, x: &'b mut &'a str) -> &'a str where 'a: 'b", "{ *x }", "&mut \"hi\"", "\"hi\""),
    ("<D>(deps: &D, x: u8, y: u8, z: u8, w: u8, v: u8, u: u8, t: u8, s: u8, r: u8, q: u8, p: u8, o: u8) -> u32",
     "{ (x as u32) + 2 * (y as u32) + 3 * (z as u32) + 4 * (w as u32) + 5 * (v as u32) + 6 * (u as u32) + 7 * (t as u32) + 8 * (s as u32) + 9 * (r as u32) + 10 * (q as u32) + 11 * (p as u32) + 12 * (o as u32) }",
     "1, 2, 3, 4, 5, 6, 7, 8, 9, 10, 11, 12", "650"),
    ("<D>(deps: &D, res: Result<u8, ()>) -> Result<u8, ()>", "{ let v = res?; Ok(v + 1) }", "Ok(1)", "Ok(2)"),
    ("<D>(deps: (&D), x: i32) -> i32", "{ x + 1 }", "1", "2"),   # a parenthesised dependency type
    ("<D, T: ?::core::marker::Sized + ::core::fmt::Display + ::core::marker::Sync>(deps: &D, value: &T) -> ::std::string::String", "{ ::std::format!(\"{}\", value) }", "\"abc\"", "\"abc\""),   # T = str
    ("<D>(deps: &D, c: char, f: f64, i: i128, u: usize, un: ()) -> ::std::string::String", "{ ::std::format!(\"{c}{f}{i}{u}{un:?}\") }", "'c', 1.5, -3, 4, ()", "\"c1.5-34()\""),
    ("<D>(deps: &D, cow: ::std::borrow::Cow<'_, str>) -> usize", "{ cow.len() }", "::std::borrow::Cow::Borrowed(\"abc\")", "3"),
    ("<D>(deps: &D, x: &&&u8) -> u8", "{ ***x + 1 }", "&&&4", "5"),
    # type / const parameters that no argument determines (the caller names them; the delegation has to pass them on)
    ("<D, T: 'static>(deps: &D) -> &'static str", "{ ::core::any::type_name::<T>() }", "", "\"u8\"", ("::<_, u8>", "Subj::<u8>::subj(&app)")),
    ("<T: 'static>(deps: &impl ::core::marker::Sized, x: u8) -> (&'static str, u8)", "{ (::core::any::type_name::<T>(), x) }", "7", "(\"u16\", 7)",
     ("::<u16>", "Subj::<u16>::subj(&app, 7)")),
    ("<D, const N: usize>(deps: &D) -> usize", "{ N }", "", "3", ("::<_, 3>", "Subj::<3>::subj(&app)")),
    # a binder written on the where predicate, over several bounds that all use the bound lifetime
    ("<D>(deps: &D, s: &str) -> usize where for<'a> D: GP<'a> + GM<'a> + ::core::marker::Sync", "{ deps.gp(s).len() + deps.gm(s) }", "\"abc\"", "5",
     ("", None), "pub trait GP<'a> { fn gp(&self, s: &'a str) -> &'a str; } pub trait GM<'a> { fn gm(&self, s: &'a str) -> usize; }\n"
                 "impl<'a, T> GP<'a> for ::entrait::Impl<T> { fn gp(&self, s: &'a str) -> &'a str { &s[1..] } } impl<'a, T> GM<'a> for ::entrait::Impl<T> { fn gm(&self, s: &'a str) -> usize { s.len() } }"),
    ("<D>(deps: &D, s: &str) -> usize where for<'a, 'b> D: GP<'a> + GM<'b>, D: ::core::marker::Sync", "{ deps.gp(s).len() + deps.gm(s) }", "\"abcd\"", "7",
     ("", None), "pub trait GP<'a> { fn gp(&self, s: &'a str) -> &'a str; } pub trait GM<'a> { fn gm(&self, s: &'a str) -> usize; }\n"
                 "impl<'a, T> GP<'a> for ::entrait::Impl<T> { fn gp(&self, s: &'a str) -> &'a str { &s[1..] } } impl<'a, T> GM<'a> for ::entrait::Impl<T> { fn gm(&self, s: &'a str) -> usize { s.len() } }"),
    # a destructuring pattern whose single binding is named like the fn itself, next to patterns without any usable name
    ("<D>(deps: &D, Wrap(subj): Wrap, x: u32) -> u32", "{ subj + x }", "Wrap(1), 2", "3", ("", None), "pub struct Wrap(pub u32);"),   # (every pattern can be lifted)
    ("<D>(deps: &D, Wrap(subj): Wrap, (dx, dy): (u32, u32)) -> u32", "{ subj + dx + dy }", "Wrap(1), (2, 3)", "6", ("", None), "pub struct Wrap(pub u32);"),
    ("<D>(deps: &D, _: bool, &subj: &u32, [a, b]: [u32; 2], Wrap(arg1): Wrap) -> u32", "{ subj + a + b + arg1 }", "true, &1, [2, 3], Wrap(4)", "10", ("", None), "pub struct Wrap(pub u32);"),
    ("<'a, D, T: ::core::default::Default + ::core::fmt::Debug, const N: usize>(deps: &'a D, s: &'a str) -> (::std::string::String, &'a str)",
     "{ (::std::format!(\"{:?}{}\", T::default(), N), s) }", "\"s\"", "(\"05\", \"s\")", ("::<_, i8, 5>", "Subj::<i8, 5>::subj(&app, \"s\")")),
]


def gallery_cases(label):
    out = []
    for gi, entry in enumerate(GALLERY):
        sig, body, args, want = entry[:4]
        turbofish, trait_call = entry[4] if len(entry) > 4 else ("", None)
        prelude = (entry[5] + "\n") if len(entry) > 5 else ""
        # (`const fn`: the fn stays const, the trait method - which cannot be - delegates to it; only for const-evaluable bodies)
        for form in ("fn", "async", "mod", "unsafe") + (("const", "const_mod") if body in ("{ x + 1 }", "{ ***x + 1 }", "{ N }") else ()):
            cid = "c03g%s_%02d_%s" % (label, gi, form)
            is_async = form == "async"
            if is_async and ("'a" in sig.split("(")[0] and "impl Iterator" in sig):
                continue
            if is_async and any(x in sig for x in ("<D, F>", "<D, T>", "dyn Iterator", "*const", "impl Fn(i32) -> i32 + Send) -> i32" if False else "<D, F>")):
                continue   # a future capturing a non-Send argument cannot be Send: rustc's rule
            q = {"fn": "", "async": "async ", "mod": "pub ", "unsafe": "unsafe ", "const": "const ", "const_mod": "pub const "}[form]
            fn = "%sfn subj%s %s" % (q, sig, body)
            if is_async and ("dyn Iterator" in sig or "*const" in sig or "&mut Vec" in sig and False):
                continue   # non-Send arguments in a Send future: rustc's rule
            if form in ("mod", "const_mod"):
                item = prelude + "#[::entrait::entrait(pub Subj)] /*@inv*/\npub mod m { use super::*; %s }" % fn
                path = "m::subj"
            else:
                item = prelude + "#[::entrait::entrait(pub Subj)] /*@inv*/\n%s" % fn
                path = "subj"
            w = (lambda c: "::vrt::block_on(%s)" % c) if is_async else ((lambda c: "unsafe { %s }" % c) if form == "unsafe" else (lambda c: c))
            dbg = "&::std::format!(\"{:?}\", %s)"
            needs_collect = "impl Iterator" in sig
            conv = (lambda e: "%s.collect::<::std::vec::Vec<_>>()" % e) if needs_collect else (lambda e: e)
            generic_args = "::<u8, _>" if False else ""
            run = ["pub fn run() {", "    let app = ::entrait::Impl::new(());",
                   '    ::vrt::phase("direct"); { let r = %s; ::vrt::result(&r); }' % conv(w("%s%s(&app, %s)" % (path, turbofish, args))),
                   '    ::vrt::phase("trait"); { let r = %s; ::vrt::result(&r); }' % conv(w(trait_call or "app.subj(%s)" % args)), "}"]
            out.append(core.Case(cid, item + "\n" + "\n".join(run) + "\n", meta={"gallery": gi, "form": form, "want": want, "nontrivial": True, "sig": sig}))
    # the whole type of the dependency parameter arrives through a macro_rules `ty` fragment (a None-delimited group around `&..`)
    for k, dty in enumerate(["&impl ::core::marker::Sized", "&D", "&(impl ::core::marker::Sized + ::core::marker::Sync)", "&'a D"]):
        src = ("macro_rules! define { ($deps:ty) => {\n    #[::entrait::entrait(pub Subj)] /*@inv*/\n    fn subj<'a, D>(deps: $deps, x: &'a i32) -> i32 { *x + 1 }\n} }\n"
               "define!(%s);\npub fn run() {\n    let app = ::entrait::Impl::new(());\n"
               '    ::vrt::phase("direct"); { let r = subj::<()>(&app, &1); ::vrt::result(&r); }\n    ::vrt::phase("trait"); { let r = app.subj(&1); ::vrt::result(&r); }\n}\n') % dty
        if "D" not in dty.replace("Sized", ""):
            src = src.replace("fn subj<'a, D>", "fn subj<'a>").replace("subj::<()>(", "subj(")
        else:
            src = src.replace("subj::<()>(", "subj(")
        out.append(core.Case("c03g%s_ty_%d" % (label, k), src, meta={"gallery": 900 + k, "form": "fn", "want": "2", "nontrivial": True, "sig": "(deps: $deps = %s, x: &'a i32) -> i32" % dty}))
    return out


def check_gallery(c, rep):
    if c.removed is not None:
        d = (c.removed["diags"] or [{}])[0]
        rep.violation(c.id, "gallery-compile:%s:%s" % (d.get("code"), d.get("message", "")[:60]),
                      "signature `fn subj%s` (%s) does not compile: %s" % (c.meta["sig"], c.meta["form"], d.get("message", "")[:300]))
        return
    rec = c.runrec.get("bin")
    if not rec or rec.get("panic") or rec.get("crash"):
        rep.violation(c.id, "gallery-crash", "gallery case died: %s" % (rec,))
        return
    ph = {p["label"]: p for p in rec["phases"]}
    d, t = ph["direct"]["result"], ph["trait"]["result"]
    if c.meta["want"] is not None and d != c.meta["want"]:
        raise core.Inconclusive("harness: gallery %s direct result %s, expected %s" % (c.id, d, c.meta["want"]))
    if d != t:
        rep.violation(c.id, "gallery-result", "`fn subj%s`: trait call returns %s, direct call %s" % (c.meta["sig"], t, d))
    rep.bump("gallery_cases_checked")
    rep.count(c.sig(), True)


# inputs of recorded findings (never produced by the random generator)
KNOWN_PINS = [
    ("shared_generic_name", "#[::entrait::entrait(pub M)] /*@inv*/\npub mod m { pub fn a<D, T>(deps: &D, t: T) {} pub fn b<D, T>(deps: &D, t: T) {} }\npub fn run() {}\n"),
    ("no_deps_elided_borrow", "#[::entrait::entrait(pub F, no_deps)] /*@inv*/\nfn f(x: &str) -> &str { x }\npub fn run() {}\n"),
    ("type_outlives_lifetime", "#[::entrait::entrait(pub F)] /*@inv*/\nfn f<'a, D, T: 'a>(deps: &D, t: &'a T) -> &'a T { t }\npub fn run() {}\n"),
]


def run(tier, seed):
    rep = core.Report(PROP, tier, seed)
    rep.rule = ("random fn/mod signatures of the supported class (deps forms x lifetimes incl. relations x type/const generics with "
                "inline/where bounds x qualifiers x return kinds) x option sets x both feature settings; fix-point compilation; "
                "per sync fn two witness lines coerce the fn and <App as Trait>::method to the same fn-pointer type; then the C01 "
                "oracle. non-trivial = >= 2 of {lifetime, type param, const param, where clause, borrowed return, qualifier, by-value deps, async}")
    n = 400 if tier == "quick" else 4000
    allc = {}
    pairs = set()
    for unimock in (False, True):
        label = "on" if unimock else "off"
        cases = gen_cases(n, seed, unimock, label)
        st = selftest.case("selftest_c03" + label)
        ws = core.Workspace(PROP, label, unimock=unimock)
        pins = [core.Case("c03known%s_%s" % (label, name), src, meta={"pin": name, "nontrivial": True}) for name, src in KNOWN_PINS]
        gal = gallery_cases(label)
        ws.extend(cases + pins + gal + [st])
        ws.write()
        b = ws.build()
        ws.run(b["exes"])
        selftest.verify(st)
        for c in gal:
            allc[c.id] = c
            check_gallery(c, rep)
        for c in pins:
            allc[c.id] = c
            if c.removed is not None:
                d = (c.removed["diags"] or [{}])[0]
                rep.violation(c.id, "compile:%s:%s" % (d.get("code"), d.get("message", "")[:70]), "expansion does not compile: %s" % d.get("message", "")[:300],
                              pinned=c.meta["pin"])
        for c in cases:
            if c.removed is not None:
                d = (c.removed["diags"] or [{}])[0]
                line = d.get("line")
                wl = [k for k, v in c.marks.items() if v == line and k.startswith("w")]
                kind = "witness-" + wl[0][:3] if wl else "compile"
                rep.violation(c.id, "%s:%s:%s" % (kind, d.get("code"), d.get("message", "")[:70]),
                              "%s: %s" % ("fn-pointer witness rejected" if wl else "expansion does not compile", d.get("message", "")[:300]))
                rep.count(c.sig(), c.meta["nontrivial"])
                continue
            c01.check_case(c, rep)
            rep.bump("witness_lines", sum(1 for k in c.marks if k.startswith("w")))
            for f in c.meta["fns"]:
                sg = f["sig"]
                dims = {"deps": f["deps_kind"], "ret": f["ret"], "async": f["async"], "qual": (f["unsafe"], f["extern"]), "mode": c.meta["mode"],
                        "tparam": ("<T" in sg or "<U" in sg or ", T" in sg or ", U" in sg), "const": "const K" in sg, "lt": "'" in sg, "where": " where " in sg}
                keys = sorted(dims)
                for i in range(len(keys)):
                    for j in range(i + 1, len(keys)):
                        pairs.add((keys[i], str(dims[keys[i]]), keys[j], str(dims[keys[j]])))
            allc[c.id] = c
        for c in cases:
            allc[c.id] = c
        rep.bump("fixpoint_rounds", ws.rounds)
    rep.extra["feature_value_pairs_covered"] = len(pairs)
    core.floors(rep, calls_compared=n // 2, witness_lines=n // 2)
    rep.assumptions = ["type identity is witnessed by fn-pointer coercion, which accepts a method that is *more* general than the pointer type",
                       "async fns: output type pinned through the run-time type_name of the awaited result instead of a pointer witness"]
    return rep.finish(allc)
