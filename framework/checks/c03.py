"""C03 - every supported signature expands to compiling code with the same call type.
Channels: compiler diagnostics after fix-point compilation (including fn-pointer witness lines
that coerce both the function and the trait method to one pointer type), then the C01 oracle at
run time so that compiling-but-miswired is not missed."""
from .. import core, selftest
from ..gen.fncases import FnCaseBuilder
from . import c01

PROP = "C03"

PROFILE = dict(p_generic_param=0.45, p_lifetimes=0.4, p_const=0.2, p_unsafe=0.15, p_extern=0.12, p_async=0.3,
               p_lt_relation=0.5,
               rets=["owned", "owned", "unit", "borrow_deps", "borrow_deps", "borrow_arg", "borrow_arg", "generic"],
               deps_kinds=["generic_ref"] * 4 + ["impl_ref"] * 3 + ["generic_val", "impl_val", "concrete_ref", "concrete_ref", "concrete_val", "no_deps"])


def nontrivial(m):
    for f in m["fns"]:
        feats = 0
        s = f["sig"]
        feats += "'" in s
        feats += "<T" in s or "<U" in s or ", T" in s or ", U" in s
        feats += "const K" in s
        feats += " where " in s
        feats += f["ret"] in ("borrow_deps", "borrow_arg")
        feats += f["unsafe"] or f["extern"]
        feats += f["deps_kind"].endswith("_val")
        feats += f["async"]
        if feats >= 2:
            return True
    return False


def gen_cases(n, seed, unimock, label):
    cases = []
    rng = core.rng_for(PROP, seed, label)
    for i in range(n):
        cid = "c03%s_%04d" % (label, i)
        opts = list(rng.choice(c01.OPTION_POOL_ON if unimock else c01.OPTION_POOL_OFF))
        rng.shuffle(opts)
        macro = rng.choice(["entrait", "entrait", "entrait_export"])
        prof = dict(PROFILE)
        if c01.unimock_expanded(macro, opts, unimock):
            prof.update(c01.UNIMOCK_SAFE)
        b = FnCaseBuilder(cid, rng, profile=prof, options=opts, macro=macro, unimock_feature=unimock).build()
        c = b.case(witness=True)
        c.meta["nontrivial"] = nontrivial(c.meta)
        cases.append(c)
    return cases


# inputs of recorded findings (never produced by the random generator)
KNOWN_PINS = [
    ("shared_generic_name", "#[::entrait::entrait(pub M)] /*@inv*/\npub mod m { pub fn a<D, T>(deps: &D, t: T) {} pub fn b<D, T>(deps: &D, t: T) {} }\npub fn run() {}\n"),
    ("no_deps_elided_borrow", "#[::entrait::entrait(pub F, no_deps)] /*@inv*/\nfn f(x: &str) -> &str { x }\npub fn run() {}\n"),
    ("type_outlives_lifetime", "#[::entrait::entrait(pub F)] /*@inv*/\nfn f<'a, D, T: 'a>(deps: &D, t: &'a T) -> &'a T { t }\npub fn run() {}\n"),
]


def run(tier, seed):
    rep = core.Report(PROP, tier, seed)
    rep.rule = ("random fn/mod signatures of the supported class (deps forms x lifetimes incl. relations x type/const generics with "
                "inline/where bounds x qualifiers x return kinds) x option sets x both feature settings; fix-point compilation; "
                "per sync fn two witness lines coerce the fn and <App as Trait>::method to the same fn-pointer type; then the C01 "
                "oracle. non-trivial = >= 2 of {lifetime, type param, const param, where clause, borrowed return, qualifier, by-value deps, async}")
    n = 400 if tier == "quick" else 4000
    allc = {}
    for unimock in (False, True):
        label = "on" if unimock else "off"
        cases = gen_cases(n, seed, unimock, label)
        st = selftest.case("selftest_c03" + label)
        ws = core.Workspace(PROP, label, unimock=unimock)
        pins = [core.Case("c03known%s_%s" % (label, name), src, meta={"pin": name, "nontrivial": True}) for name, src in KNOWN_PINS]
        ws.extend(cases + pins + [st])
        ws.write()
        b = ws.build()
        ws.run(b["exes"])
        selftest.verify(st)
        for c in pins:
            allc[c.id] = c
            if c.removed is not None:
                d = (c.removed["diags"] or [{}])[0]
                rep.violation(c.id, "compile:%s:%s" % (d.get("code"), d.get("message", "")[:70]), "expansion does not compile: %s" % d.get("message", "")[:300],
                              pinned=c.meta["pin"])
        for c in cases:
            if c.removed is not None:
                d = (c.removed["diags"] or [{}])[0]
                line = d.get("line")
                wl = [k for k, v in c.marks.items() if v == line and k.startswith("w")]
                kind = "witness-" + wl[0][:3] if wl else "compile"
                rep.violation(c.id, "%s:%s:%s" % (kind, d.get("code"), d.get("message", "")[:70]),
                              "%s: %s" % ("fn-pointer witness rejected" if wl else "expansion does not compile", d.get("message", "")[:300]))
                rep.count(c.sig(), c.meta["nontrivial"])
                continue
            c01.check_case(c, rep)
            rep.bump("witness_lines", sum(1 for k in c.marks if k.startswith("w")))
            allc[c.id] = c
        for c in cases:
            allc[c.id] = c
        rep.bump("fixpoint_rounds", ws.rounds)
    core.floors(rep, calls_compared=n // 2, witness_lines=n // 2)
    rep.assumptions = ["type identity is witnessed by fn-pointer coercion, which accepts a method that is *more* general than the pointer type",
                       "async fns: output type pinned through the run-time type_name of the awaited result instead of a pointer witness"]
    return rep.finish(allc)
