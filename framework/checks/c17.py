"""C17 - options mean what the table says; macro variants are option shorthands.
Metamorphic oracle on recorder events: invocations that the statement declares equivalent must
produce identical output tokens for the same item tokens; acceptance table per target."""
import itertools
from .. import core, tok
from ..core import Case
from ..gen.fncases import FnCaseBuilder, random_fn

PROP = "C17"

# option -> documented targets (README / lib.rs table)
TABLE = {
    "no_deps": {"fn"},
    "export": {"fn", "mod"},
    "mock_api": {"fn", "mod", "trait"},
    "unimock": {"fn", "mod", "trait"},
    "mockall": {"fn", "mod", "trait"},
    "delegate_by": {"trait"},
    "?Send": {"fn", "mod", "trait"},
}
BOOL_OPTS = ["no_deps", "export", "unimock", "mockall"]

TRAIT_ITEMS = [
    "pub trait Subj { fn m(&self, a: i32, b: i32) -> i32; async fn am(&self, s: &str) -> u8; }",
    "trait Subj<T: Clone>: Send where T: Sized { fn g(&self, t: T) -> T; }",
    "pub(crate) trait Subj { fn only(&self); }",
]
IMPL_ITEMS = [
    "impl SubjImpl for Target { fn m(deps: &impl Sized, a: i32) -> i32 { a } pub async fn am<D>(deps: &D) {} }",
]


def render_opt(name, form):
    """form: bare | true | false | value"""
    if name == "?Send":
        return "?Send"
    if name == "mock_api":
        return "mock_api = SubjMock"
    if name == "delegate_by":
        return "delegate_by = " + form
    return {"bare": name, "true": name + " = true", "false": name + " = false"}[form]


def items_for(rng, kind, idx):
    if kind == "trait":
        return rng.choice(TRAIT_ITEMS)
    if kind == "impl":
        return rng.choice(IMPL_ITEMS)
    b = FnCaseBuilder("x", rng, mode=kind, options=[], profile={"deps_kinds": ["generic_ref", "impl_ref", "generic_val"] + (["concrete_ref"] if kind == "fn" else [])})
    b.build()
    # drop the attribute line(s) of the subject, keep helper-free item text
    lines = b.lines
    i = next(k for k, l in enumerate(lines) if "/*@inv*/" in l)
    return "\n".join(lines[i + 1:]), [f.deps_kind for f in b.fns]


class Group:
    def __init__(self, kind, item):
        self.kind = kind
        self.item = item
        self.variants = []   # (label, macro, args, klass, build)   build in {"off","on"}


def make_group(rng, kind, gi):
    nodeps_item = kind in ("fn0", "mod0")
    if nodeps_item:
        # items without a dependency parameter: rejected unless `no_deps` is given - `no_deps = false` and an omitted `no_deps`
        # have to be rejected alike (same diagnostic), neither may be read as `no_deps`
        item = {"fn0": rng.choice(["fn target() -> i32 { 1 }", "pub async fn target() {}", "fn target<T: Default>() -> T { T::default() }"]),
                "mod0": rng.choice(["mod target { pub fn f() {} pub fn g<D>(deps: &D) {} }", "pub mod target { pub fn g<D>(deps: &D) {} pub(crate) fn f() -> u8 { 1 } }"])}[kind]
        kind = kind[:-1]
        first = "Subj"
    elif kind in ("fn", "mod"):
        item, depk = items_for(rng, kind, gi)
        first = "Subj"
    else:
        item = items_for(rng, kind, gi)
        first = None
    g = Group(kind, item)
    # choose an option set valid for this target
    pool = [o for o, t in TABLE.items() if kind in t]
    if kind == "fn" or nodeps_item:
        pool = [o for o in pool if o != "no_deps"]   # the item has a deps parameter (or is meant to be rejected for the lack of one)
    k = rng.randint(0, min(4, len(pool)))
    chosen = rng.sample(pool, k)
    forms = {}
    for o in chosen:
        if o in BOOL_OPTS:
            forms[o] = rng.choice(["bare", "true", "false"]) if o != "no_deps" else "false"
        elif o == "delegate_by":
            forms[o] = rng.choice(["ref", "Self", "Borrow"])
        else:
            forms[o] = "value"
    head = [first] if first else []
    if kind == "trait" and "delegate_by" in forms and forms["delegate_by"] == "ref" and rng.random() < 0.5:
        head = ["SubjImpl"]

    def args(opts_forms, order=None):
        names = order if order is not None else list(opts_forms)
        return ", ".join(head + [render_opt(n, opts_forms[n]) for n in names])

    base_names = list(forms)
    g.variants.append(("base", "entrait", args(forms), "A", "off"))
    # orderings
    perms = list(itertools.permutations(base_names))
    rng.shuffle(perms)
    for pi, perm in enumerate(perms[:5]):
        g.variants.append(("perm%d" % pi, "entrait", args(forms, list(perm)), "A", "off"))
    # bare <-> = true
    alt = dict(forms)
    changed = False
    for o in base_names:
        if o in BOOL_OPTS and forms[o] in ("bare", "true"):
            alt[o] = "true" if forms[o] == "bare" else "bare"
            changed = True
    if changed:
        g.variants.append(("bare-vs-true", "entrait", args(alt), "A", "off"))
    # `= false` vs omitted for no_deps / export
    for o in ("no_deps", "export"):
        if kind in TABLE[o] or (o == "no_deps" and (kind == "fn" or nodeps_item)):
            if o not in forms:
                f2 = dict(forms)
                f2[o] = "false"
                order = base_names + [o]
                rng.shuffle(order)
                g.variants.append(("%s-false-vs-omitted" % o, "entrait", args(f2, order), "A", "off"))
            elif forms[o] == "false":
                f2 = {k2: v for k2, v in forms.items() if k2 != o}
                g.variants.append(("%s-omitted-vs-false" % o, "entrait", args(f2), "A", "off"))
    # entrait_export(args) == entrait(args, export) unless args sets export
    if "export" not in forms:
        g.variants.append(("export-variant", "entrait_export", args(forms), "B", "off"))
        if kind in ("fn", "mod"):
            f2 = dict(forms)
            f2["export"] = "bare"
            order = base_names + ["export"]
            rng.shuffle(order)
            g.variants.append(("export-option", "entrait", args(f2, order), "B", "off"))
        else:
            # `export` is not an option on traits / impls: the variant default is all there is
            pass
    # feature on: entrait(args) == feature off: entrait(args, unimock) unless args sets unimock
    if "unimock" not in forms and kind in ("fn", "mod", "trait"):
        g.variants.append(("feature-on", "entrait", args(forms), "C", "on"))
        f2 = dict(forms)
        f2["unimock"] = rng.choice(["bare", "true"])
        order = base_names + ["unimock"]
        rng.shuffle(order)
        g.variants.append(("unimock-option", "entrait", args(f2, order), "C", "off"))
    elif kind in ("fn", "mod", "trait"):
        # explicit unimock: the feature must not matter
        g.variants.append(("feature-on-explicit", "entrait", args(forms), "A", "on"))
    # both variant defaults at once: with the feature, entrait_export(args) == entrait(args + export + unimock) without it,
    # where each of the two is only added when args does not set it explicitly
    if kind in ("fn", "mod", "trait"):
        g.variants.append(("export-variant-feature-on", "entrait_export", args(forms), "D", "on"))
        f2 = dict(forms)
        order = list(base_names)
        if "unimock" not in f2:
            f2["unimock"] = rng.choice(["bare", "true"])
            order.append("unimock")
        if kind != "trait" and "export" not in f2:
            f2["export"] = rng.choice(["bare", "true"])
            order.append("export")
        rng.shuffle(order)
        g.variants.append(("both-defaults-as-options", "entrait_export" if kind == "trait" else "entrait", args(f2, order), "D", "off"))
    g.nontrivial = bool(forms)
    g.forms = forms
    return g


def accept_cases(rng):
    """Acceptance table: every (option, target) pair, valid or not."""
    out = []
    targets = {"fn": "fn target<D>(deps: &D, a: i32) -> i32 { a }",
               "mod": "mod target { pub fn f<D>(deps: &D) {} }",
               "trait": "trait Target { fn f(&self); }",
               "impl": "impl TargetImpl for X { fn f(deps: &impl Sized) {} }"}
    heads = {"fn": "Foo, ", "mod": "Foo, ", "trait": "", "impl": ""}
    for tgt, item in targets.items():
        for o in TABLE:
            for form in (["bare", "true", "false"] if o in BOOL_OPTS else ["ref"] if o == "delegate_by" else ["value"]):
                out.append((tgt, o, form, "#[::entrait::entrait(%s%s)]" % (heads[tgt], render_opt(o, form)), item))
    return out


def run(tier, seed):
    rep = core.Report(PROP, tier, seed)
    rep.rule = ("groups of invocations on identical item tokens (fn/mod from the shared grammar, trait and impl items): option-order "
                "permutations, bare vs `= true`, `= false` vs omitted, entrait_export vs `export`, unimock cargo feature vs `unimock`; "
                "outputs inside an equivalence class must be token-identical; plus the full option x target acceptance table. "
                "non-trivial = group with a non-empty option set")
    n = 500 if tier == "quick" else 3000
    rng = core.rng_for(PROP, seed)
    groups = []
    for gi in range(n):
        kind = rng.choice(["fn", "fn", "mod", "mod", "trait", "trait", "impl"] * 3 + ["fn0", "mod0"])
        groups.append(make_group(rng, kind, gi))
    cases = {"off": [], "on": []}
    index = {}
    for gi, g in enumerate(groups):
        for build in ("off", "on"):
            vs = [(vi, v) for vi, v in enumerate(g.variants) if v[4] == build]
            if not vs:
                continue
            lines = []
            for vi, (label, macro, args, klass, _b) in vs:
                lines.append("pub mod v%d {" % vi)
                lines.append("#[::entrait::%s(%s)] /*@v%d*/" % (macro, args, vi))
                lines.append(g.item)
                lines.append("}")
            cid = "c17%s_%05d" % (build, gi)
            c = Case(cid, "\n".join(lines) + "\n", meta={"group": gi, "kind": g.kind}, run=False, expect="expand")
            cases[build].append(c)
            index[(gi, build)] = c
    # acceptance table
    acc = accept_cases(rng)
    acc_cases = []
    for ai, (tgt, o, form, attr, item) in enumerate(acc):
        c = Case("c17acc_%03d" % ai, "%s /*@inv*/\n%s\n" % (attr, item), meta={"target": tgt, "opt": o, "form": form}, run=False, expect="expand")
        acc_cases.append(c)
    # effect table: an option that the table documents for a target has to *do* there what it does elsewhere. `?Send`: the futures of
    # the async fns / methods of the target (no async_trait) are required to be `Send` without it and are not with it
    eff_cases = []
    eff_items = {"fn": "async fn target<D>(deps: &D, a: i32) -> i32 { a }",
                 "mod": "mod target { pub async fn f<D>(deps: &D) -> u8 { 1 } pub fn g<D>(deps: &D) {} }",
                 "trait": "trait Target { async fn f(&self, a: i32) -> i32; fn g(&self); }",
                 "trait_target": "trait Target { async fn f(&self, a: i32) -> i32; }"}
    eff_heads = {"fn": ["Foo"], "mod": ["Foo"], "trait": [], "trait_target": ["TargetImpl", "delegate_by = DelegateTarget"]}
    for ek, item in eff_items.items():
        extra = rng.choice([[], ["mock_api = M"], ["unimock = false"]])
        for with_opt in (False, True):
            o = eff_heads[ek] + extra + (["?Send"] if with_opt else [])
            if with_opt:
                o = eff_heads[ek][:1] + rng.sample(o[len(eff_heads[ek][:1]):], len(o) - len(eff_heads[ek][:1]))
            eff_cases.append(Case("c17eff_%s_%d" % (ek, int(with_opt)), "#[::entrait::entrait(%s)] /*@inv*/\n%s\n" % (", ".join(o), item),
                                  meta={"target": ek, "with": with_opt}, run=False, expect="expand"))
    # `export` (round 19): whatever mock library is selected, with or without a mock_api, the mock attributes are behind a
    # `cfg_attr(test, ..)` gate without the option and behind none with it (bare, `= true`, or the exporting macro variant)
    exp_cases = []
    exp_items = {"fn": "fn target<D>(deps: &D, a: i32) -> i32 { a }", "mod": "mod target { pub fn f<D>(deps: &D) -> u8 { 1 } }"}
    exp_mocks = [["mockall"], ["mockall = true", "mock_api = M"], ["unimock", "mock_api = M"], ["unimock = true", "mockall", "mock_api = M"]]
    for ek, item in exp_items.items():
        for mi, mock in enumerate(exp_mocks):
            for fi, form in enumerate([None, "export", "export = true", "VARIANT"]):
                o = ["Foo"] + rng.sample(mock + ([form] if form and form != "VARIANT" else []), len(mock) + (1 if form and form != "VARIANT" else 0))
                exp_cases.append(Case("c17exp_%s_%d_%d" % (ek, mi, fi), "#[::entrait::%s(%s)] /*@inv*/\n%s\n" % (
                    "entrait_export" if form == "VARIANT" else "entrait", ", ".join(o), item),
                    meta={"target": ek, "mock": mi, "form": form}, run=False, expect="expand"))
    for build, unimock in (("off", False), ("on", True)):
        ws = core.Workspace(PROP, build, unimock=unimock, expand_only=True)
        ws.extend(cases[build] + ((acc_cases + eff_cases + exp_cases) if build == "off" else []))
        ws.write()
        ws.build()
    by = {}
    nested = {}
    for gi, g in enumerate(groups):
        outs = {}
        for build in ("off", "on"):
            c = index.get((gi, build))
            if c is None:
                continue
            by[c.id] = c
            line2v = {c.marks["v%d" % vi]: vi for vi, v in enumerate(g.variants) if v[4] == build}
            firsts = {}
            for r in c.records:
                vi = line2v.get(r["line"])
                if vi is not None and vi not in firsts:
                    firsts[vi] = r
                elif vi is not None:
                    # expansions nested in the first one (the leaf trait of a concrete-deps fn is entraited by an attribute the
                    # first expansion emits): part of what the invocation expands to
                    nested.setdefault((gi, vi), []).append(r)
            for vi, r in firsts.items():
                outs[vi] = r
        missing = [v[0] for vi, v in enumerate(g.variants) if vi not in outs]
        if missing:
            raise core.Inconclusive("no expansion record for variants %s of group %d" % (missing, gi))
        classes = {}
        for vi, v in enumerate(g.variants):
            r = outs[vi]
            if r["status"] != "end":
                rep.violation(index[(gi, v[4])].id, "no-output", "variant %s (%s) did not return" % (v[0], v[2]))
                continue
            classes.setdefault(v[3], []).append((v, r))
        for klass, members in classes.items():
            ref_v, ref_r = members[0]
            ref_l = tok.leaves(ref_r["output"], True)
            for v, r in members[1:]:
                rep.bump("pairs_compared")
                rep.bucket("pair_kinds", v[0].rstrip("0123456789"))
                l = tok.leaves(r["output"], True)
                if l == ref_l:
                    def nested_leaves(x):
                        # what the nested invocation emits, minus the unimock attribute the *first* expansion put on the trait: in
                        # the build with the feature that attribute has already been expanded (and consumed) when the nested
                        # invocation runs, in the build without it `::entrait::__unimock` does not resolve and it is still there
                        out = x.get("output") or []
                        i, kept = 0, []
                        while i + 1 < len(out) and tok.is_p(out[i], "#") and tok.is_g(out[i + 1], "["):
                            if tok.attr_path(out[i + 1]["s"]) != "::entrait::__unimock::unimock":
                                kept += out[i:i + 2]
                            i += 2
                        return tok.leaves(kept + out[i:], True)
                    na = [nested_leaves(x) for x in nested.get((gi, g.variants.index(v)), [])]
                    nb = [nested_leaves(x) for x in nested.get((gi, g.variants.index(ref_v)), [])]
                    if na or nb:
                        rep.bump("nested_expansions_compared")
                    if na != nb:
                        rep.violation(index[(gi, v[4])].id, "not-equivalent:nested:" + v[0].rstrip("0123456789"),
                                      "`%s(%s)` [%s] and `%s(%s)` [%s] expand alike, but the invocations nested in the output expand differently on the same %s" % (
                                          v[1], v[2], v[4], ref_v[1], ref_v[2], ref_v[4], g.kind),
                                      {"item": g.item, "a": [tok.render(x.get("output") or [], 2000) for x in nested.get((gi, g.variants.index(v)), [])],
                                       "b": [tok.render(x.get("output") or [], 2000) for x in nested.get((gi, g.variants.index(ref_v)), [])]})
                if l != ref_l:
                    d = next((i for i, (x, y) in enumerate(zip(l, ref_l)) if x != y), min(len(l), len(ref_l)))
                    rep.violation(index[(gi, v[4])].id, "not-equivalent:" + v[0].rstrip("0123456789"),
                                  "`%s(%s)` [%s] and `%s(%s)` [%s] expand differently on the same %s; first difference at leaf %d: %s vs %s" % (
                                      v[1], v[2], v[4], ref_v[1], ref_v[2], ref_v[4], g.kind, d, l[d:d + 6], ref_l[d:d + 6]),
                                  {"item": g.item, "a": tok.render(r["output"], 3000), "b": tok.render(ref_r["output"], 3000)})
        import hashlib
        rep.count(hashlib.sha1((g.item + repr(g.variants)).encode()).hexdigest(), g.nontrivial)
        rep.bucket("kinds", g.kind)
        rep.sample({"kind": g.kind, "item": g.item[:300], "variants": [(v[0], v[1], v[2], v[3], v[4]) for v in g.variants]}, limit=3)
    # acceptance table
    for c in acc_cases:
        by[c.id] = c
        m = c.meta
        recs = [r for r in c.records if r["status"] == "end"]
        if not recs:
            raise core.Inconclusive("no record for acceptance case %s" % c.id)
        out = recs[0]["output"]
        rejected = "compile_error" in tok.idents(out[:8])
        msg = " ".join(d["message"] for d in c.diags)
        rej_opt = rejected and ("Unsupported option" in msg or "Unkonwn entrait option" in msg)
        documented = m["target"] in TABLE[m["opt"]]
        rep.bump("acceptance_points")
        pin = "accept:%s:%s" % (m["opt"], m["target"])
        if documented and rejected:
            rep.violation(c.id, "rejected-documented:%s:%s" % (m["opt"], m["target"]),
                          "option `%s` is documented for %s but rejected: %s" % (m["opt"], m["target"], msg[:200]), pinned=pin)
        if not documented and not rej_opt:
            rep.violation(c.id, "accepted-undocumented:%s:%s" % (m["opt"], m["target"]),
                          "option `%s` (%s) is not documented for %s but was accepted (diagnostics: %s)" % (
                              m["opt"], m["form"], m["target"], msg[:200]), pinned=pin)
    # effect table
    def send_count(c):
        recs = [r for r in c.records if r["status"] == "end" and r["line"] == c.marks["inv"]]
        if not recs:
            raise core.Inconclusive("no record for effect case %s" % c.id)
        out = recs[0]["output"]
        if "compile_error" in tok.idents(out[:8]):
            return None
        # `Send` required of a future: the identifier right after `Future<..> +` chains is enough to count (`+ :: core :: marker :: Send`)
        return tok.idents(out[len(recs[0]["input"]) - 1:]).count("Send")
    for ek in eff_items:
        a, b = [c for c in eff_cases if c.meta["target"] == ek]
        by[a.id], by[b.id] = a, b
        na, nb = send_count(a), send_count(b)
        rep.bump("effect_points")
        if na is None or nb is None:
            rep.violation(b.id, "effect:?Send:rejected:%s" % ek, "`?Send` is documented for %s targets but the invocation was rejected" % ek)
        elif not (nb < na):
            rep.violation(b.id, "effect:?Send:no-effect:%s" % ek, "`?Send` on a %s target with an async fn changes nothing: `Send` occurs %d times in the generated code without it and %d times with it" % (ek, na, nb))
    def test_gates(c):
        recs = [r for r in c.records if r["status"] == "end" and r["line"] == c.marks["inv"]]
        if not recs:
            raise core.Inconclusive("no record for export case %s" % c.id)
        out = recs[0]["output"]
        if "compile_error" in tok.idents(out[:8]):
            return None
        return tok.idents(out[len(recs[0]["input"]) - 1:]).count("test")
    for ek in exp_items:
        for mi in range(len(exp_mocks)):
            grp = [c for c in exp_cases if c.meta["target"] == ek and c.meta["mock"] == mi]
            base = next(c for c in grp if c.meta["form"] is None)
            by[base.id] = base
            n0 = test_gates(base)
            if not n0:
                continue      # no test gate to lift (or rejected): nothing `export` could be seen doing here
            for c in grp:
                if c is base:
                    continue
                by[c.id] = c
                n1 = test_gates(c)
                rep.bump("export_effect_points")
                if n1 is None:
                    rep.violation(c.id, "effect:export:rejected:%s" % ek, "`export` is documented for %s targets but the invocation was rejected" % ek)
                elif n1 != 0:
                    rep.violation(c.id, "effect:export:still-test-gated:%s" % ek, "with `%s` and mocks [%s] the generated code of a %s target still mentions `test` %d time(s) (%d without the option): the mock is not exported" % (
                        c.meta["form"], ", ".join(exp_mocks[mi]), ek, n1, n0))
    core.floors(rep, pairs_compared=n, effect_points=4, export_effect_points=12)
    return rep.finish(by)
