"""C06 - entraited traits: Impl<T> forwards every method to T (Self / ref / Borrow).
Oracle: differential (call on Impl<App> vs call on the provider itself) + availability model
`Impl<T>: Trait  <=>  T: Sync + 'static and T provides the trait in the selected way`."""
from .. import core, selftest
from ..core import Case
from ..gen import traits as tg

PROP = "C06"


def probe_lines(t, tr_path, cid, maybe_send_rc=False):
    """Generic-context probe: which bounds does the trait *declare* for the returned future, and its Output."""
    L = ["fn __c12_probe<__X: %s + 'static>(x: &__X) {" % tr_path]   # (`'static`: methods may carry `where Self: 'static`)
    for mi, m in enumerate(t.methods):
        if not m.is_async:
            continue
        s1, e1, _d = m.call_args(50, "p%d" % mi)
        L += ["    " + s for s in s1]
        # (fully qualified: a supertrait may declare a method of the same name)
        L.append("    { let fut = <__X as %s>::%s(x%s); ::vrt::fact(\"send:%s\", ::vrt::value_is!(&fut ; ::core::marker::Send)); ::vrt::fact(\"out:%s\", ::vrt::output_type_name(&fut)); }" % (
            tr_path, m.cname(), "".join(", " + e for e in e1), m.name, m.name))
    L.append("}")
    return L


def build_case(cid, rng, selector, unimock=False, force_async=False, no_send=False, probes=False):
    dyn = selector in ("ref", "Borrow")
    want_async = force_async or rng.random() < 0.5
    with_at = dyn and want_async
    t = tg.random_trait(rng, "Tr", dyn_safe=dyn, allow_async=(want_async or not dyn), with_async_trait=with_at, uninferable=True, allow_ghost=True)
    for m_ in t.methods:
        # a fifth of the methods are provided ones (default body): forwarded to the provider's own implementation like any other
        if rng.random() < 0.2 and "impl " not in m_.ret_text():
            m_.provided = True
    if not want_async:
        for m in t.methods:
            m.is_async = False
    has_async = any(m.is_async for m in t.methods)
    if dyn:
        # idioms required by rustc for `dyn Tr` behind a Sync app (see tests/it/delegation_modes.rs)
        t.supers = [s for s in t.supers if "Sized" not in s]
        if "'static" not in t.supers:
            t.supers.append("'static")
        if has_async and "::core::marker::Sync" not in t.supers:
            t.supers.append("::core::marker::Sync")
        t.attrs = [a for a in t.attrs]
    opts = []
    if selector != "default":
        opts.append("delegate_by = %s" % selector)
    extra = rng.choice([[], [], ["?Send"] if False else [], ["mockall = false"], ["unimock = false"], ["debug = false"],
                        ["mockall"] if not unimock else [], ["unimock = true", "mock_api = TrMock"] if not unimock else []])   # (gated by cfg(test): inert here)
    opts += extra
    if no_send:
        opts.append("?Send")
    if force_async and not any(m.is_async for m in t.methods):
        t.methods[0].is_async = True
        t.methods[0].mgenerics = [(n_, b_ + ["::core::marker::Send"]) for n_, b_ in t.methods[0].mgenerics]
        has_async = True
        if dyn:
            t.async_trait = t.async_trait or "#[::async_trait::async_trait]"
            if "::core::marker::Sync" not in t.supers:
                t.supers.append("::core::marker::Sync")
    rng.shuffle(opts)
    targs = t.args_text()
    L = tg.support_for(t.methods, t)
    if rng.random() < 0.5:
        # the real conversion traits are imported in the invoking scope (as they are wherever the user writes
        # `impl Borrow<dyn Tr> for App`): method-call syntax in the generated delegation then sees their blanket impls too
        L.append("#[allow(unused_imports)] use ::core::borrow::{Borrow as _, BorrowMut as _};")
        L.append("#[allow(unused_imports)] use ::core::ops::{Deref as _, DerefMut as _};")
        L.append("#[allow(unused_imports)] use ::core::convert::{AsMut as _, Into as _, From as _};")
    # supertraits that are themselves entraited: `Impl<T>: Sup` then does not follow from `T: Sup` alone
    sup = rng.choice([None, None, "ref", "self", "borrow"]) if not dyn else None
    # ... and may declare a method named like one of the subtrait's own methods (callers then have to say which one they mean)
    supname = t.methods[0].name if (sup and rng.random() < 0.4) else "sup"
    if sup:
        L.append("#[::entrait::entrait%s] pub trait Sup%s { fn %s(&self) -> i32; }" % (
            {"ref": "(delegate_by = ref)", "self": "", "borrow": "(delegate_by = Borrow)"}[sup], ": 'static" if sup != "self" else "", supname))
        t.supers.append("Sup")
    L.append("#[::entrait::entrait(%s)] /*@inv*/" % ", ".join(opts))
    L.append(t.source())
    at = (t.async_trait + "\n") if t.async_trait else ""
    if no_send and not t.async_trait:
        # a provider whose futures are not Send: legal only because of `?Send`
        for m in t.methods:
            if m.is_async:
                m.pre = "let __rc = ::std::rc::Rc::new(1u8); ::vrt::yield_once().await; let _ = *__rc;"

    import re

    def impl_for(ty, idp, name_expr):
        out = [at + "impl Tr%s for %s {" % (targs, ty)]
        for m in t.methods:
            sig = re.sub(r"\bG\b", "i32", m.trait_sig()) if t.generic else m.trait_sig()
            out.append("    " + sig + " " + m.body("%s::%s::%s" % (cid, idp, m.name), "self", name_expr=name_expr))
        out.append("}")
        return out
    L.append("pub struct Prov { pub name: &'static str }")
    L += impl_for("Prov", "Prov", "self.name")
    if sup:
        for ty in ("Prov", "ProvNotSync"):
            L.append("impl Sup for %s { fn %s(&self) -> i32 { 1 } }" % (ty, supname))
            if sup == "ref":
                L.append("impl ::core::convert::AsRef<dyn Sup> for %s { fn as_ref(&self) -> &(dyn Sup + 'static) { self } }" % ty)
            if sup == "borrow":
                L.append("impl ::core::borrow::Borrow<dyn Sup> for %s { fn borrow(&self) -> &(dyn Sup + 'static) { self } }" % ty)
    L.append("pub struct NonProv;")
    # a !Sync provider cannot implement a trait with a Sync supertrait or with Send futures (rustc rules)
    notsync = (not dyn) and not has_async and not any("Sync" in x for x in t.supers)
    L.append("pub struct ProvNotSync { pub c: ::core::cell::Cell<u8>, pub name: &'static str }")
    if notsync:
        L += impl_for("ProvNotSync", "ProvNotSync", "self.name")
    # a provider that is Sync but not Send: `Impl<T>: Trait` only asks for `T: Sync + 'static`
    notsend = (not dyn) and not any("Send" in x for x in t.supers) and not sup
    L.append("pub struct ProvNotSend { pub g: ::core::option::Option<::std::sync::MutexGuard<'static, ()>>, pub name: &'static str }")
    if notsend:
        L += impl_for("ProvNotSend", "ProvNotSend", "self.name")
    dynty = "dyn Tr%s" % targs
    L.append("pub struct AppRef { pub inner: ::std::boxed::Box<%s + ::core::marker::Send + ::core::marker::Sync> }" % dynty if dyn else "pub struct AppRef;")
    L.append("pub struct AppBorrow { pub inner: ::std::boxed::Box<%s + ::core::marker::Send + ::core::marker::Sync> }" % dynty if dyn else "pub struct AppBorrow;")
    if dyn:
        L.append("impl ::core::convert::AsRef<%s> for AppRef { fn as_ref(&self) -> &(%s + 'static) { &*self.inner } }" % (dynty, dynty))
        L.append("impl ::core::borrow::Borrow<%s> for AppBorrow { fn borrow(&self) -> &(%s + 'static) { &*self.inner } }" % (dynty, dynty))
    # driver
    D = ["pub fn run() {"]
    tr = "Tr%s" % targs
    if selector in ("default", "Self"):
        D.append('    let app = ::entrait::Impl::new(Prov { name: "prov_%s" });' % cid)
        D.append('    ::vrt::fact("prov_addr", ::vrt::addr(&*app)); ::vrt::fact("prov_tn", ::vrt::tn(&*app));')
        direct = "<Prov as %s>::{m}(&*app{args})" % tr
        right, wrong = "Prov", "AppRef"
    elif selector == "ref":
        D.append('    let app = ::entrait::Impl::new(AppRef { inner: ::std::boxed::Box::new(Prov { name: "prov_%s" }) });' % cid)
        D.append('    ::vrt::fact("prov_addr", ::vrt::addr(&*app.inner)); ::vrt::fact("prov_tn", ::vrt::tn_of::<Prov>());')
        direct = "app.inner.{m}({args0})"
        right, wrong = "AppRef", "AppBorrow"
    else:
        D.append('    let app = ::entrait::Impl::new(AppBorrow { inner: ::std::boxed::Box::new(Prov { name: "prov_%s" }) });' % cid)
        D.append('    ::vrt::fact("prov_addr", ::vrt::addr(&*app.inner)); ::vrt::fact("prov_tn", ::vrt::tn_of::<Prov>());')
        direct = "app.inner.{m}({args0})"
        right, wrong = "AppBorrow", "AppRef"
    if probes and not t.async_trait:
        L += probe_lines(t, tr, cid)
        D.append("    __c12_probe(&app);")
        for m in t.methods:
            if m.is_async:
                s1, e1, _d = m.call_args(50, "q")
                D += ["    " + x for x in s1]
                D.append('    { let fut = %s; ::vrt::fact("dout:%s", ::vrt::output_type_name(&fut)); }' % (
                    direct.format(m=m.cname(), args="".join(", " + e for e in e1), args0=", ".join(e1)), m.name))
    D.append('    ::vrt::fact("avail_right", ::vrt::implements!(::entrait::Impl<%s>: %s));' % (right, tr))
    D.append('    ::vrt::fact("avail_nonprov", ::vrt::implements!(::entrait::Impl<NonProv>: %s));' % tr)
    D.append('    ::vrt::fact("avail_wrong_selector", ::vrt::implements!(::entrait::Impl<%s>: %s));' % (wrong if dyn else "AppRef", tr))
    if notsend:
        D.append('    ::vrt::fact("avail_notsend", ::vrt::implements!(::entrait::Impl<ProvNotSend>: %s));' % tr)
    if notsync:
        D.append('    ::vrt::fact("avail_notsync", ::vrt::implements!(::entrait::Impl<ProvNotSync>: %s));' % tr)
    if not dyn:
        D.append('    ::vrt::fact("avail_bare", ::vrt::implements!(Prov: %s));' % tr)
    else:
        D.append('    ::vrt::fact("avail_plain_provider", ::vrt::implements!(::entrait::Impl<Prov>: %s));' % tr)
    calls = []
    base = 1
    for mi, m in enumerate(t.methods):
        s1, e1, d1 = m.call_args(base, "%dd" % mi)
        s2, e2, d2 = m.call_args(base, "%dt" % mi)
        base += len(m.params) + 1
        wrap = (lambda c: "::vrt::block_on(%s)" % c) if m.is_async else (lambda c: c)
        dcall = direct.format(m=m.cname(), args="".join(", " + e for e in e1), args0=", ".join(e1))
        D.append('    ::vrt::phase("direct:%s");' % m.name)
        D += ["    " + s for s in s1]
        D.append('    let r = %s; ::vrt::result(&r); ::vrt::kv("rtn", ::vrt::tn(&r)); ::vrt::record_polls();' % wrap(dcall))
        D.append('    ::vrt::phase("impl:%s");' % m.name)
        D += ["    " + s for s in s2]
        icall = "app.%s(%s)" % (m.cname(), ", ".join(e2)) if m.name != supname else "<_ as %s>::%s(&app%s)" % (tr, m.cname(), "".join(", " + e for e in e2))
        D.append('    let r = %s; ::vrt::result(&r); ::vrt::kv("rtn", ::vrt::tn(&r)); ::vrt::record_polls();' % wrap(icall))
        calls.append({"m": m.name, "fn": "%s::Prov::%s" % (cid, m.name), "args": d1, "async": m.is_async})
    D.append("}")
    sigs = [m.trait_sig().replace(m.name, "") for m in t.methods]
    nt = len(t.methods) >= 2 or selector in ("ref", "Borrow") or any(
        any(a.type_text() == b.type_text() for a, b in zip(m.params, m.params[1:])) for m in t.methods)
    meta = {"selector": selector, "calls": calls, "dyn": dyn, "notsync": notsync, "notsend": notsend, "opts": opts, "entraited_supertrait": sup, "async_trait": t.async_trait,
            "async_methods": [m.name for m in t.methods if m.is_async], "no_send": no_send, "generic": t.generic, "nontrivial": nt,
            "methods": [m.trait_sig() for m in t.methods], "same_sig": len(set(sigs)) < len(sigs)}
    return Case(cid, "\n".join(L + D) + "\n", meta=meta)


def hygiene_case(cid, rng):
    """A leaf trait stamped out by macro_rules!: method parameter names come partly from the invocation and partly from
    the macro body (same spelling, different hygiene); the provider impl is written by hand outside the macro."""
    n = rng.randint(2, 4)
    origins = [rng.choice(["caller", "macro"]) for _ in range(n)]
    if len(set(origins)) == 1:
        origins[0] = "caller" if origins[0] == "macro" else "macro"
    pool = ["a", "b", "inner"]
    used = {"caller": set(), "macro": set()}
    names = []
    for o in origins:
        nm = rng.choice([x for x in pool + ["c", "d"] if x not in used[o]][:3])
        used[o].add(nm)
        names.append(nm)
    matcher, call_args = ["$tr:ident"], ["Tr"]
    ps = []
    for i, (o, nm) in enumerate(zip(origins, names)):
        if o == "caller":
            matcher.append("$p%d:ident" % i)
            call_args.append(nm)
            ps.append("$p%d" % i)
        else:
            ps.append(nm)
    sel = rng.choice(["", "delegate_by = Self", "delegate_by = ref", "delegate_by = Borrow"])
    dyn = "ref" in sel or "Borrow" in sel
    is_async = (not dyn) and rng.random() < 0.4
    # the receiver, too, is written by the macro (next to the attribute) or handed in by the invocation
    recv = "&self"
    if rng.random() < 0.5:
        matcher.append("[$($recv:tt)*]")
        call_args.append("[&self]")
        recv = "$($recv)*"
    L = ["macro_rules! make_trait {", "    (%s) => {" % ", ".join(matcher),
         "        #[::entrait::entrait(%s)] /*@inv*/" % sel,
         "        pub trait $tr%s { %sfn m0(%s, %s) -> ::std::string::String; }" % (": 'static" if dyn else "", "async " if is_async else "", recv, ", ".join("%s: i32" % x for x in ps)),
         "    };", "}", "make_trait!(%s);" % ", ".join(call_args)]
    fid = "%s::Prov::m0" % cid
    hand = ["x%d" % i for i in range(n)]
    L.append("pub struct Prov { pub name: &'static str }")
    L.append("impl Tr for Prov { %sfn m0(&self, %s) -> ::std::string::String { ::vrt::enter(\"%s\", ::vrt::tn(self), ::vrt::addr(self), &[%s]); %s::std::format!(\"%s\", %s) } }" % (
        "async " if is_async else "", ", ".join("%s: i32" % x for x in hand), fid, ", ".join("&%s as &dyn ::core::fmt::Debug" % x for x in hand),
        "::vrt::yield_once().await; " if is_async else "", "|".join("{}" for _ in hand), ", ".join(hand)))
    L.append("pub struct NonProv; pub struct AppRef { pub inner: ::std::boxed::Box<dyn Tr + ::core::marker::Send + ::core::marker::Sync> }" if dyn else "pub struct NonProv; pub struct AppRef;")
    if dyn:
        L.append("impl ::core::convert::AsRef<dyn Tr> for AppRef { fn as_ref(&self) -> &(dyn Tr + 'static) { &*self.inner } }")
        L.append("impl ::core::borrow::Borrow<dyn Tr> for AppRef { fn borrow(&self) -> &(dyn Tr + 'static) { &*self.inner } }")
    vals = ", ".join("%di32" % (101 + i) for i in range(n))
    w = (lambda c: "::vrt::block_on(%s)" % c) if is_async else (lambda c: c)
    D = ["pub fn run() {"]
    if dyn:
        D.append('    let app = ::entrait::Impl::new(AppRef { inner: ::std::boxed::Box::new(Prov { name: "p" }) });')
        D.append('    ::vrt::fact("prov_addr", ::vrt::addr(&*app.inner)); ::vrt::fact("prov_tn", ::vrt::tn_of::<Prov>());')
        direct = "app.inner.m0(%s)" % vals
    else:
        D.append('    let app = ::entrait::Impl::new(Prov { name: "p" });')
        D.append('    ::vrt::fact("prov_addr", ::vrt::addr(&*app)); ::vrt::fact("prov_tn", ::vrt::tn(&*app));')
        direct = "<Prov as Tr>::m0(&*app, %s)" % vals
    D.append('    ::vrt::fact("avail_right", ::vrt::implements!(::entrait::Impl<%s>: Tr));' % ("AppRef" if dyn else "Prov"))
    D.append('    ::vrt::fact("avail_nonprov", ::vrt::implements!(::entrait::Impl<NonProv>: Tr));')
    D.append('    ::vrt::fact("avail_wrong_selector", ::vrt::implements!(::entrait::Impl<%s>: Tr));' % ("Prov" if dyn else "AppRef"))
    if dyn:
        D.append('    ::vrt::fact("avail_plain_provider", ::vrt::implements!(::entrait::Impl<Prov>: Tr));')
    D.append('    ::vrt::phase("direct:m0"); let r = %s; ::vrt::result(&r); ::vrt::kv("rtn", ::vrt::tn(&r)); ::vrt::record_polls();' % w(direct))
    D.append('    ::vrt::phase("impl:m0"); let r = %s; ::vrt::result(&r); ::vrt::kv("rtn", ::vrt::tn(&r)); ::vrt::record_polls();' % w("app.m0(%s)" % vals))
    D.append("}")
    meta = {"selector": "hygiene:" + (sel or "default"), "dyn": dyn, "notsync": False, "nontrivial": True, "generic": False,
            "calls": [{"m": "m0", "fn": fid, "args": [str(101 + i) for i in range(n)], "async": is_async}],
            "methods": ["macro_rules m0 names=%s origins=%s" % (names, origins)], "opts": [sel], "async_trait": None, "async_methods": [], "no_send": False}
    return Case(cid, "\n".join(L + D) + "\n", meta=meta)


def unsized_case(cid, rng):
    """A generic leaf trait whose type parameter is relaxed in the where clause (`where X: ?Sized`), used at `str`."""
    sel = rng.choice(["", "delegate_by = Self", "delegate_by = ref", "delegate_by = Borrow"])
    dyn = "ref" in sel or "Borrow" in sel
    where = rng.choice(["where X: ?Sized", "where X: ?Sized, Self: 'static", "where X: ?Sized + ::core::fmt::Debug"])
    inline = rng.random() < 0.3
    if dyn:
        # `dyn Tr<X> + 'static` is only well-formed for `X: 'static`
        where = where.replace("X: ?Sized", "X: ?Sized + 'static")
    head = ("pub trait Tr<X: ?Sized%s>%s" % (" + 'static" if dyn else "", ": 'static" if dyn else "")) if inline else ("pub trait Tr<X>%s %s" % (": 'static" if dyn else "", where))
    L = ["#[::entrait::entrait(%s)] /*@inv*/" % sel, head + " { fn m0(&self, x: &X, k: i32) -> usize; }"]
    fid = "%s::Prov::m0" % cid
    L.append("pub struct Prov { pub name: &'static str }")
    L.append('impl Tr<str> for Prov { fn m0(&self, x: &str, k: i32) -> usize { ::vrt::enter("%s", ::vrt::tn(self), ::vrt::addr(self), &[&x as &dyn ::core::fmt::Debug, &k as &dyn ::core::fmt::Debug]); x.len() + k as usize } }' % fid)
    L.append("pub struct NonProv; pub struct AppRef { pub inner: ::std::boxed::Box<dyn Tr<str> + ::core::marker::Send + ::core::marker::Sync> }" if dyn else "pub struct NonProv; pub struct AppRef;")
    if dyn:
        L.append("impl ::core::convert::AsRef<dyn Tr<str>> for AppRef { fn as_ref(&self) -> &(dyn Tr<str> + 'static) { &*self.inner } }")
        L.append("impl ::core::borrow::Borrow<dyn Tr<str>> for AppRef { fn borrow(&self) -> &(dyn Tr<str> + 'static) { &*self.inner } }")
    D = ["pub fn run() {"]
    if dyn:
        D.append('    let app = ::entrait::Impl::new(AppRef { inner: ::std::boxed::Box::new(Prov { name: "p" }) });')
        D.append('    ::vrt::fact("prov_addr", ::vrt::addr(&*app.inner)); ::vrt::fact("prov_tn", ::vrt::tn_of::<Prov>());')
        direct = 'app.inner.m0("abc", 2)'
    else:
        D.append('    let app = ::entrait::Impl::new(Prov { name: "p" });')
        D.append('    ::vrt::fact("prov_addr", ::vrt::addr(&*app)); ::vrt::fact("prov_tn", ::vrt::tn(&*app));')
        direct = '<Prov as Tr<str>>::m0(&*app, "abc", 2)'
    D.append('    ::vrt::fact("avail_right", ::vrt::implements!(::entrait::Impl<%s>: Tr<str>));' % ("AppRef" if dyn else "Prov"))
    D.append('    ::vrt::fact("avail_nonprov", ::vrt::implements!(::entrait::Impl<NonProv>: Tr<str>));')
    D.append('    ::vrt::fact("avail_wrong_selector", ::vrt::implements!(::entrait::Impl<%s>: Tr<str>));' % ("Prov" if dyn else "AppRef"))
    if dyn:
        D.append('    ::vrt::fact("avail_plain_provider", ::vrt::implements!(::entrait::Impl<Prov>: Tr<str>));')
    D.append('    ::vrt::phase("direct:m0"); let r = %s; ::vrt::result(&r); ::vrt::kv("rtn", ::vrt::tn(&r)); ::vrt::record_polls();' % direct)
    # the call goes through an availability-guarded helper: if `Impl<..>: Tr<str>` does not hold the case must still compile
    D.append('    ::vrt::phase("impl:m0"); let r = __call(&app); ::vrt::result(&r); ::vrt::kv("rtn", ::vrt::tn(&r)); ::vrt::record_polls();')
    D.append("}")
    L.append("pub trait __Fallback { fn m0(&self, _x: &str, _k: i32) -> usize { usize::MAX } }")
    L.append("impl<T> __Fallback for &T {}")
    L.append('fn __call<A>(app: &A) -> usize where A: Tr<str> { app.m0("abc", 2) }')
    meta = {"selector": "unsized:" + (sel or "default"), "dyn": dyn, "notsync": False, "nontrivial": True, "generic": True,
            "calls": [{"m": "m0", "fn": fid, "args": ['"abc"', "2"], "async": False}],
            "methods": [head], "opts": [sel], "async_trait": None, "async_methods": [], "no_send": False}
    return Case(cid, "\n".join(L + D) + "\n", meta=meta)


def check_case(c, rep):
    m = c.meta
    if c.removed is not None:
        d = (c.removed["diags"] or [{}])[0]
        rep.violation(c.id, "compile:%s:%s" % (d.get("code"), d.get("message", "")[:70]), "does not compile: %s" % d.get("message", "")[:300])
        return
    rec = c.runrec.get("bin")
    if not rec:
        raise core.Inconclusive("no run record for %s" % c.id)
    if rec.get("crash") or rec.get("panic"):
        rep.violation(c.id, "crash-or-panic", "case died: %s" % (rec.get("crash") or rec.get("panic"))[:300])
        return
    f = rec["facts"]
    model = {"avail_right": "true", "avail_nonprov": "false", "avail_wrong_selector": "false"}
    if m["dyn"]:
        model["avail_plain_provider"] = "false"
    elif m["notsync"]:
        model["avail_notsync"] = "false"
    if m.get("notsend"):
        model["avail_notsend"] = "true"
    for k, want in model.items():
        if f.get(k) != want:
            rep.violation(c.id, "availability:%s=%s" % (k, f.get(k)), "probe %s = %s, model says %s (selector %s)" % (k, f.get(k), want, m["selector"]))
        rep.bump("availability_probes")
    ph = {p["label"]: p for p in rec["phases"]}
    for call in m["calls"]:
        d, t = ph["direct:" + call["m"]], ph["impl:" + call["m"]]

        def ok(p):
            if len(p["events"]) != 1:
                return "%d provider events, expected exactly 1: %s" % (len(p["events"]), [e["fn"] for e in p["events"]])
            e = p["events"][0]
            if e["fn"] != call["fn"]:
                return "reached %s instead of %s" % (e["fn"], call["fn"])
            if e["tn"] != f["prov_tn"] or str(e["addr"]) != f["prov_addr"]:
                return "provider identity (%s, %s), expected (%s, %s)" % (e["tn"], e["addr"], f["prov_tn"], f["prov_addr"])
            if e["args"] != call["args"]:
                return "arguments %s, expected %s" % (e["args"], call["args"])
            return None
        bad = ok(d)
        if bad:
            raise core.Inconclusive("harness: direct provider call of %s/%s off: %s" % (c.id, call["m"], bad))
        bad = ok(t)
        if bad:
            rep.violation(c.id, "forwarding:" + bad.split(",")[0][:40], "Impl<T>.%s: %s" % (call["m"], bad), {"direct": d, "impl": t})
            continue
        if t["result"] != d["result"] or t["kv"].get("rtn") != d["kv"].get("rtn"):
            rep.violation(c.id, "result-differs", "Impl<T>.%s returned %s, provider returned %s" % (call["m"], t["result"], d["result"]))
            continue
        if call["async"] and int(t["kv"].get("polls", 0)) < 2:
            raise core.Inconclusive("async provider did not suspend in %s" % c.id)
        rep.bump("calls_compared")
        rep.bump("trace_events", 2)
    rep.bucket("selectors", m["selector"])
    rep.bucket("entraited_supertrait", str(m.get("entraited_supertrait")))
    rep.count(c.sig(), m["nontrivial"])
    rep.sample({"case": c.id, "selector": m["selector"], "methods": m["methods"], "facts": f,
                "impl_phase": [p for p in rec["phases"] if p["label"].startswith("impl:")][:1]}, limit=3)


def eager_future_case(cid, rng, shape=None):
    """Methods that return a future without being `async fn` (`fn m(&self) -> impl Future + Send`): the provider does part of its
    work when it is *called* and the rest when the future is polled. Forwarding means the call reaches the provider when the
    method is called - not when (or if) the returned future is polled."""
    shape = shape or rng.choice(["trait", "trait_self", "concrete_fn"])
    fut = "impl ::core::future::Future<Output = i32> + ::core::marker::Send"
    L = []
    if shape == "concrete_fn":
        # C05's shape: the leaf trait of a concrete-deps fn reaches Impl<T> through a nested invocation on the generated trait
        L.append("pub struct Prov { pub k: i32 }")
        L.append("#[::entrait::entrait(pub Tr)] /*@inv*/")
        L.append("fn mf(deps: &Prov, a: i32) -> %s { ::vrt::enter(\"%s::called\", \"\", 0, &[&a as &dyn ::core::fmt::Debug]); let k = deps.k; async move { ::vrt::enter(\"%s::polled\", \"\", 0, &[]); a + k } }" % (fut, cid, cid))
    else:
        L.append("#[::entrait::entrait%s] /*@inv*/" % ("(delegate_by = Self)" if shape == "trait_self" else ""))
        L.append("pub trait Tr { fn mf(&self, a: i32) -> %s; }" % fut)
        L.append("pub struct Prov { pub k: i32 }")
        L.append("impl Tr for Prov { fn mf(&self, a: i32) -> %s { ::vrt::enter(\"%s::called\", \"\", 0, &[&a as &dyn ::core::fmt::Debug]); let k = self.k; async move { ::vrt::enter(\"%s::polled\", \"\", 0, &[]); a + k } } }" % (fut, cid, cid))
    D = ["pub fn run() {", "    let app = ::entrait::Impl::new(Prov { k: 10 });"]
    for label, recv in (("direct", "&*app"), ("impl", "&app")):
        D.append('    ::vrt::phase("%s");' % label)
        D.append("    { let fut = Tr::mf(%s, 1); ::vrt::enter(\"%s::created\", \"\", 0, &[]); let r = ::vrt::block_on(fut); ::vrt::result(&r); }" % (recv, cid))
        D.append('    ::vrt::phase("%s:dropped");' % label)
        D.append("    { let fut = Tr::mf(%s, 2); ::core::mem::drop(fut); ::vrt::enter(\"%s::dropped\", \"\", 0, &[]); }" % (recv, cid))
    D.append("}")
    return Case(cid, "\n".join(L + D) + "\n", meta={"family": "eager_future", "shape": shape, "nontrivial": True})


def check_eager_future(c, rep):
    if c.removed is not None:
        d = (c.removed["diags"] or [{}])[0]
        rep.violation(c.id, "eager-future:compile:%s" % d.get("code"), "a future-returning (non-async) method does not compile: %s" % d.get("message", "")[:300])
        return
    rec = c.runrec.get("bin")
    if not rec or rec.get("panic") or rec.get("crash"):
        raise core.Inconclusive("no run record for %s: %s" % (c.id, rec))
    ph = {p_["label"]: p_ for p_ in rec["phases"]}
    ev = lambda l: [e["fn"].split("::")[-1] for e in ph[l]["events"]]
    if ev("direct") != ["called", "created", "polled"] or ev("direct:dropped") != ["called", "dropped"]:
        raise core.Inconclusive("harness: direct path of %s gives %s / %s" % (c.id, ev("direct"), ev("direct:dropped")))
    for l in ("impl", "impl:dropped"):
        if ev(l) != ev(l.replace("impl", "direct")):
            rep.violation(c.id, "eager-future:order:%s" % "-".join(ev(l)), "through Impl<T> the provider is reached at %s, on T itself at %s (%s): the call is not forwarded when the method is called" % (
                ev(l), ev(l.replace("impl", "direct")), c.meta["shape"]))
            return
    if ph["impl"]["result"] != ph["direct"]["result"]:
        rep.violation(c.id, "eager-future:result", "results differ: %s vs %s" % (ph["impl"]["result"], ph["direct"]["result"]))
        return
    rep.bump("eager_future_cases_ok")
    rep.count(c.sig(), True)


def run(tier, seed):
    rep = core.Report(PROP, tier, seed)
    rep.rule = ("random leaf traits (1-4 &self methods incl. same-signature pairs, generic trait, generic methods, supertraits, where "
                "clauses, borrowed returns, async with/without async_trait) x selectors {default, Self, ref, Borrow}; apps: provider, "
                "non-provider, provider-but-!Sync, provider of the wrong selector; every call on Impl<App> compared with the call on the "
                "provider itself. non-trivial = >= 2 methods, two same-typed adjacent params, or a dynamic selector")
    n = 400 if tier == "quick" else 4000
    rng = core.rng_for(PROP, seed)
    cases = []
    for i in range(n):
        if rng.random() < 0.1:
            cases.append(hygiene_case("c06_%04d" % i, rng))
            continue
        if rng.random() < 0.06:
            cases.append(unsized_case("c06_%04d" % i, rng))
            continue
        sel = rng.choice(["default", "default", "Self", "ref", "ref", "Borrow"])
        cases.append(build_case("c06_%04d" % i, rng, sel))
    st = selftest.case("selftest_c06")
    ws = core.Workspace(PROP, "x", deps=("async-trait",))
    eager = [eager_future_case("c06e_%03d" % i, rng) for i in range(12 if tier == "quick" else 60)]
    ws.extend(cases + eager + [st])
    ws.write()
    b = ws.build()
    ws.run(b["exes"])
    selftest.verify(st)
    for c in cases:
        check_case(c, rep)
    for c in eager:
        check_eager_future(c, rep)
    rep.bump("fixpoint_rounds", ws.rounds)
    core.floors(rep, calls_compared=n, availability_probes=3 * n)
    return rep.finish({c.id: c for c in cases + eager})
