"""C13 - generated traits have exactly the requested visibility.
Oracle: Rust's visibility model evaluated at 7 observation points (defining scope, child, parent,
sibling, case root, another module of the crate, a second crate); observed through the glob-import
probe `visible_trait!` at run time, and on the recorded visibility tokens."""
import itertools
from .. import core, tok, selftest
from ..core import Case

PROP = "C13"
LIB0 = "c13lib"
LIBM = "c13libm"   # cases with mock / export options: this library depends on mockall and on entrait's unimock feature

POINTS = {
    # name: (module path inside the lib crate, path expression to the defining scope `p`)
    "here": (["CID", "gp", "p"], "self"),
    "child": (["CID", "gp", "p", "child"], "super"),
    "parent": (["CID", "gp"], "self::p"),
    "sibling": (["CID", "gp", "sib"], "super::p"),
    "root": (["CID"], "self::gp::p"),
    "outside": (["CID_obs"], "crate::CID::gp::p"),
}


OPTION_SETS = [("entrait", "export, mockall"), ("entrait_export", "mockall"), ("entrait", "mockall"), ("entrait", "export"),
               ("entrait", "mock_api = TrMock, unimock, export"), ("entrait_export", "unimock = true, mock_api = TrMock")]


def scope_of(vis):
    """Module path inside which something declared in `p` with this visibility is nameable; None = everywhere."""
    if vis == "pub":
        return None
    if vis in ("", "pub(self)"):
        return ["CID", "gp", "p"]
    if vis == "pub(super)":
        return ["CID", "gp"]
    if vis == "pub(crate)":
        return []
    if vis == "pub(in crate::CID)":
        return ["CID"]
    if vis == "pub(in super::super)":
        return ["CID"]
    raise ValueError(vis)


def model(vis, point):
    sc = scope_of(vis)
    if point == "ext":
        return sc is None
    if sc is None:
        return True
    return POINTS[point][0][:len(sc)] == sc


def enumerate_cases():
    out = []
    for req, item_vis in itertools.product(["", "pub", "pub(crate)", "pub(super)", "pub(in crate::CID)", "pub(self)", "pub(in super::super)"],
                                           ["", "pub", "pub(crate)"]):
        out.append(dict(kind="fn", req=req, item_vis=item_vis))
    # the other dependency kinds of fn inputs (concrete deps generate the trait through a nested invocation)
    for deps, req, item_vis in itertools.product(["concrete", "impl", "no_deps", "concrete_val"], ["", "pub", "pub(crate)", "pub(super)", "pub(in crate::CID)"],
                                                 ["", "pub", "pub(crate)", "pub(super)"]):
        out.append(dict(kind="fn", req=req, item_vis=item_vis, deps=deps))
    # module inputs: relative restricted paths (pub(super), pub(in super::..)) mean different things on the trait inside the
    # module and on the re-export beside it and are a documented limitation (tests/it/simple.rs); absolute ones are well-defined
    for req, item_vis in itertools.product(["", "pub", "pub(crate)", "pub(in crate::CID)"], ["", "pub", "pub(crate)"]):
        out.append(dict(kind="mod", req=req, item_vis=item_vis))
    # mock / export options must not change the visibility (a mock exported to other crates does not make the trait pub)
    for kind, req, item_vis, (macro, opts) in itertools.product(["fn", "mod"], ["", "pub(crate)"], ["", "pub"], OPTION_SETS):
        out.append(dict(kind=kind, req=req, item_vis=item_vis, macro=macro, opts=opts))
    for tvis, avis, deleg in itertools.product(["", "pub", "pub(crate)", "pub(super)"], ["", "pub"], ["none", "static", "dyn"]):
        if deleg == "none" and avis:
            continue
        out.append(dict(kind="trait", req=tvis, item_vis=avis, deleg=deleg))
        # the exporting macro on a trait (round 19): the delegation-target trait still takes the visibility of the original trait
        if deleg != "none" or not tvis:
            out.append(dict(kind="trait", req=tvis, item_vis=avis, deleg=deleg, macro="entrait_export"))
    return out


def build(cid, spec):
    kind = spec["kind"]
    req = spec["req"].replace("CID", cid)
    names = ["Tr"]
    macro = spec.get("macro", "entrait")
    args = (req + " Tr").strip() + ((", " + spec["opts"]) if spec.get("opts") else "")
    if kind == "fn":
        dk = spec.get("deps", "generic")
        sig = {"generic": "f<D>(deps: &D)", "concrete": "f(deps: &Cfg)", "concrete_val": "f(deps: Cfg)", "impl": "f(deps: &impl ::core::marker::Sized)", "no_deps": "f()"}[dk]
        pre = "#[derive(Clone, Copy)] pub struct Cfg;\n" if dk.startswith("concrete") else ""
        if dk == "no_deps":
            args += ", no_deps"
        inv = "%s#[::entrait::%s(%s)] /*@inv*/\n%s fn %s -> i32 { 1 }" % (pre, macro, args, spec["item_vis"], sig)
    elif kind == "mod":
        inv = "#[::entrait::%s(%s)] /*@inv*/\n%s mod m { pub fn f<D>(deps: &D) -> i32 { 1 } }" % (macro, args, spec["item_vis"])
    else:
        d = spec["deleg"]
        if d == "none":
            a = ""
        elif d == "static":
            a = "%s TrImpl, delegate_by = DelegateTr" % spec["item_vis"]
            names = ["Tr", "TrImpl"]
        else:
            a = "%s TrImpl, delegate_by = ref" % spec["item_vis"]
            names = ["Tr", "TrImpl"]
        # (two thirds of the traits open their body with an inner attribute, or carry docs between the attribute and the visibility)
        import zlib
        flav = zlib.crc32(cid.encode()) % 3
        inner = ["", "\n    //! inner docs of the trait\n    #![allow(unused_variables)]\n   ", ""][flav]
        outer = ["", "", "/// docs of the trait\n#[allow(dead_code)]\n"][flav]
        inv = "#[::entrait::%s%s] /*@inv*/\n%s%s trait Tr {%s fn f(&self) -> i32; }" % (macro, "(%s)" % a.strip() if (a.strip() or macro == "entrait") else "", outer, req, inner)

    def obs(point):
        path = POINTS[point][1].replace("CID", cid)
        lines = []
        if kind == "mod" and model(spec["item_vis"], point):
            # the same trait reached through the module itself instead of through the re-export
            lines.append('v.push(("%s:via_mod", ::vrt::visible_trait!(%s::m, Tr)));' % (point, path))
        for n in names:
            lines.append('v.push(("%s:%s", ::vrt::visible_trait!(%s, %s%s)));' % (point, n, path, n, ", generic" if n == "TrImpl" else ""))
        return "pub fn observe_%s(v: &mut ::std::vec::Vec<(&'static str, bool)>) { %s }" % (point, " ".join(lines))
    lib = """pub mod %(cid)s {
    pub mod gp {
        pub mod p {
            %(inv)s
            pub mod child { %(o_child)s }
            %(o_here)s
        }
        pub mod sib { %(o_sib)s }
        %(o_parent)s
    }
    %(o_root)s
    pub fn observe() -> ::std::vec::Vec<(&'static str, bool)> {
        let mut v = ::std::vec::Vec::new();
        gp::p::observe_here(&mut v); gp::p::child::observe_child(&mut v); gp::observe_parent(&mut v); gp::sib::observe_sibling(&mut v);
        observe_root(&mut v); crate::%(cid)s_obs::observe_outside(&mut v);
        v
    }
}
pub mod %(cid)s_obs { %(o_out)s }
""" % dict(cid=cid, inv=inv, o_child=obs("child"), o_here=obs("here"), o_sib=obs("sibling"), o_parent=obs("parent"),
           o_root=obs("root"), o_out=obs("outside"))
    LIB = LIBM if spec.get("opts") else LIB0
    ext = " ".join('::vrt::fact("ext:%s", ::vrt::visible_trait!(%s::%s::gp::p, %s%s));' % (n, LIB, cid, n, ", generic" if n == "TrImpl" else "") for n in names)
    if kind == "mod" and spec["item_vis"] == "pub":
        ext += ' ::vrt::fact("ext:via_mod", ::vrt::visible_trait!(%s::%s::gp::p::m, Tr));' % (LIB, cid)
    binsrc = "pub fn run() { for (k, v) in %s::%s::observe() { ::vrt::fact(k, v); } %s }\n" % (LIB, cid, ext)
    expect = {}
    eff = spec["req"]
    for point in list(POINTS) + ["ext"]:
        for n in names:
            expect["%s:%s" % (point, n)] = model(eff, point)
        if kind == "mod" and model(spec["item_vis"], point):
            # inside the module the trait is declared with the requested visibility, `pub(super)` when none was requested
            inner = {"": "", "pub": "pub", "pub(crate)": "pub(crate)", "pub(in crate::CID)": "pub(in crate::CID)"}[eff]
            expect["%s:via_mod" % point] = model(inner, point)
    c = Case(cid, binsrc, meta={"spec": spec, "expect": expect, "names": names, "lib": lib,
                                "nontrivial": spec["req"] != spec["item_vis"]})
    return c


def expected_vis_tokens(spec, name):
    kind = spec["kind"]
    if kind == "mod" and spec["req"] == "":
        return "pub ( super )"
    v = spec["req"].replace("CID", "CIDX")
    return {"": "", "pub": "pub", "pub(crate)": "pub ( crate )", "pub(super)": "pub ( super )", "pub(self)": "pub ( self )",
            "pub(in crate::CIDX)": "pub ( in crate :: CIDX )", "pub(in super::super)": "pub ( in super :: super )"}[v]


def cross_check(rep, specs, by):
    """Thorough: cross-check the glob-import probe with plain `use` items: every point the model calls visible
    must compile in one positive case; every point it calls invisible must be rejected with E0603/E0432 at its line."""
    cases = []
    for i, spec in enumerate(specs):
        if spec.get("opts"):
            continue   # the cross-check workspace has no mock crates; options are covered by the probe observations
        c0 = build("c13x_%03d" % i, spec)
        cid = c0.id
        tree = c0.meta["lib"].split("pub mod %s_obs" % cid)[0]
        # strip the outer `pub mod cid { .. }` wrapper: the case file itself is that module
        inner = tree.strip()[len("pub mod %s {" % cid):].rstrip()[:-1]
        inner = inner[:inner.index("pub fn observe() ->")]
        pts = {"here": ("gp::p", "self"), "child": ("gp::p::child", "super"), "parent": ("gp", "self::p"),
               "sibling": ("gp::sib", "super::p"), "root": ("", "self::gp::p")}
        for n in c0.meta["names"]:
            pos = []
            for pt, (where, path) in pts.items():
                stmt = "use %s::%s as _;" % (path, n)
                if c0.meta["expect"]["%s:%s" % (pt, n)]:
                    pos.append((where, stmt))
                else:
                    src = inject(inner, where, stmt + " /*@neg*/")
                    cases.append(Case("%s_%s_%s" % (cid.replace("c13x", "c13n"), pt, n), src.replace(cid, "%s_%s_%s" % (cid.replace("c13x", "c13n"), pt, n)) + "\npub fn run() {}\n",
                                      meta={"neg": True, "spec": spec, "point": pt, "name": n}))
            src = inner
            for where, stmt in pos:
                src = inject(src, where, stmt)
            cases.append(Case("%s_pos_%s" % (cid.replace("c13x", "c13p"), n), src.replace(cid, "%s_pos_%s" % (cid.replace("c13x", "c13p"), n)) + "\npub fn run() {}\n",
                              meta={"neg": False, "spec": spec, "name": n}))
    ws = core.Workspace(PROP, "cross")
    ws.extend(cases)
    ws.write()
    ws.build()
    for c in cases:
        by[c.id] = c
        if c.meta["neg"]:
            ok = c.removed is not None and any(d.get("code") in ("E0603", "E0432", "E0433") and d.get("line") == c.marks.get("neg") for d in c.removed["diags"])
            if ok:
                rep.bump("negative_use_probes_confirmed")
            else:
                rep.violation(c.id, "cross:visible-where-model-says-private", "`use` of `%s` from %s compiles although `%s` should hide it: %s" % (
                    c.meta["name"], c.meta["point"], c.meta["spec"]["req"] or "private", c.removed))
        else:
            if c.removed is not None:
                rep.violation(c.id, "cross:invisible-where-model-says-visible", "`use` of `%s` rejected where it should be visible (%s): %s" % (
                    c.meta["name"], c.meta["spec"], c.removed["diags"][:1]))
            else:
                rep.bump("positive_use_probes_confirmed")


def inject(src, where, stmt):
    """Insert a statement at the start of module `where` (path relative to the case root)."""
    if not where:
        return stmt + "\n" + src
    last = where.split("::")[-1]
    key = "pub mod %s {" % last
    i = src.index(key) + len(key)
    return src[:i] + " " + stmt + " " + src[i:]


def run(tier, seed):
    rep = core.Report(PROP, tier, seed)
    rep.rule = ("exhaustive: requested visibility {none, pub, pub(crate), pub(in crate::path); fn inputs also pub(super), pub(self), pub(in super::super)} x item "
                "visibility {none, pub, pub(crate)} x {fn, mod}; trait inputs: trait visibility {none, pub, pub(crate), pub(super)} x "
                "{no target, static target, dynamic target} x visibility written before the target name; fn / mod inputs x 6 mock / export "
                "option sets (library crate with mockall and the unimock feature); each observed from 7 points. "
                "non-trivial = requested visibility differs from the item's own visibility")
    specs = enumerate_cases()
    cases = [build("c13_%03d" % i, s) for i, s in enumerate(specs)]
    # the lib part of every case is its own module file of one library crate (diagnostics are attributed by file
    # name); the bin shard is the second crate
    def lib_files_for(lib):
        def lib_files(live):
            ent = 'entrait = { path = "%s"%s }' % (core.REPO, ', features = ["unimock"]' if lib == LIBM else "")
            extra = 'mockall = "0.12"\n' if lib == LIBM else ""
            files = {"Cargo.toml": "[package]\nname = \"%s\"\nversion = \"0.0.0\"\nedition = \"2021\"\n[dependencies]\n%s\n%svrt = { path = \"../vrt\" }\n" % (lib, ent, extra)}
            root = ["#![allow(warnings)]"]
            for c in live:
                if "lib" not in c.meta or c.meta["libname"] != lib:
                    continue
                tree, obs = c.meta["lib"].split("pub mod %s_obs" % c.id)
                inner = tree.strip()[len("pub mod %s {" % c.id):].rstrip()[:-1]
                files["src/%s.rs" % c.id] = inner
                root.append("pub mod %s;" % c.id)
                root.append("pub mod %s_obs%s" % (c.id, obs))
            files["src/lib.rs"] = "\n".join(root) + "\n"
            return files
        return lib_files
    for c in cases:
        c.meta["libname"] = LIBM if c.meta["spec"].get("opts") else LIB0
    st = selftest.case("selftest_c13")
    # two workspaces: the cases with mock / export options need mockall and entrait's unimock feature in the library
    # crate, and cargo would unify that feature into every other member
    for label, lib in (("x", LIB0), ("m", LIBM)):
        part = [c for c in cases if c.meta["libname"] == lib]
        ws = core.Workspace(PROP, label, extra_crates={lib: lib_files_for(lib)}, nshards=4, unimock=(lib == LIBM))
        ws.extend(part + ([st] if lib == LIB0 else []))
        ws.write()
        b = ws.build()
        ws.run(b["exes"])
    selftest.verify(st)
    # records of the lib crate carry the case's file name (src/<cid>.rs), so they were attached by the driver
    by = {c.id: c for c in cases}
    for c in cases:
        m = c.meta
        if c.removed is not None:
            d = (c.removed["diags"] or [{}])[0]
            rep.violation(c.id, "compile:%s" % d.get("code"), "does not compile: %s" % d.get("message", "")[:300])
            continue
        rec = c.runrec.get("bin")
        if not rec or rec.get("panic") or rec.get("crash"):
            raise core.Inconclusive("no run record for %s: %s" % (c.id, rec))
        f = rec["facts"]
        for k, want in m["expect"].items():
            rep.bump("observations")
            if f.get(k) != str(want).lower():
                rep.violation(c.id, "visibility:%s:%s" % (k, f.get(k)),
                              "%s %s: trait visible from `%s` = %s, Rust's visibility model for `%s` says %s" % (
                                  m["spec"]["kind"], m["spec"], k, f.get(k), m["spec"]["req"] or "private", want), {"facts": f, "expect": m["expect"]})
        # (R) visibility tokens on the emitted trait(s)
        recs = [r for r in c.records if r["status"] == "end"]
        if not recs:
            raise core.Inconclusive("no expansion record for %s" % c.id)
        r = recs[0]
        out, inp = r["output"], r["input"]
        kind = tok.item_kind(inp)["kind"]
        if kind == "mod":
            bi = tok.find_brace(inp)
            items = tok.split_items(out[bi]["s"][len(inp[bi]["s"]):])
            after = out[bi + 1:]
            want_use = m["spec"]["req"].replace("CID", c.id)
            got_use = tok.render(tok.vis_of(after, 0)[0])
            if got_use.replace(" ", "") != want_use.replace(" ", ""):
                rep.violation(c.id, "reexport-vis", "module re-export has visibility `%s`, requested `%s`" % (got_use, want_use))
        elif kind == "fn":
            items = tok.split_items(out[len(inp):])
        else:
            items = tok.split_items(out)
        for it in items:
            k = tok.item_kind(it)
            if k["kind"] == "trait" and k["name"] in m["names"]:
                got = tok.render(k["vis"])
                want = expected_vis_tokens(m["spec"], k["name"]).replace("CIDX", c.id)
                if got != want:
                    rep.violation(c.id, "vis-tokens:%s" % k["name"], "emitted trait `%s` has visibility `%s`, expected `%s`" % (k["name"], got, want))
                rep.bump("vis_tokens_checked")
            elif k["kind"] == "trait":
                rep.bucket("other_generated_traits", "%s:%s" % (k["name"], tok.render(k["vis"])))
        rep.count(repr(sorted(m["spec"].items())), m["nontrivial"])
        rep.bucket("kinds", m["spec"]["kind"])
        rep.sample({"spec": m["spec"], "expect": m["expect"], "observed": f}, limit=3)
    if tier != "quick":
        cross_check(rep, specs, by)
    rep.exhaustive = True
    core.floors(rep, observations=len(cases) * 7, vis_tokens_checked=len(cases))
    rep.assumptions = ["glob imports bring in exactly what exists and is visible from the importing module (probe self-tested every run)",
                       "the selector trait `DelegateX<T>` is always pub; the statement only speaks about the delegation-target trait (logged, not judged)"]
    return rep.finish(by)
