"""C20 - expansion is a pure function of (attribute, item).
Oracle: every two recorder events with equal (variant, attr tokens, input tokens) have equal
output tokens, across compiler processes, perturbed environments, shard/module order and
duplicated invocations inside one process."""
import hashlib
import os
from .. import core, tok
from ..gen import expand_corpus
from ..gen.fncases import FnCaseBuilder

PROP = "C20"


def key_of(r):
    return hashlib.sha1(repr((r["variant"], tok.leaves(r["attr"], True), tok.leaves(r["input"], True))).encode()).hexdigest()


def run(tier, seed):
    rep = core.Report(PROP, tier, seed)
    rep.rule = ("expansion-only corpus (token-soup fn/mod/impl inputs + realistic fn/mod cases, biased to many non-identifier "
                "parameters, entraited traits with every delegation option, and a family over a four-name vocabulary in which the trait one "
                "invocation generates is the bound / supertrait / target another one mentions, with and without ?Send and the mock options); every source is instantiated 2-5 times in different files at different line / column offsets; the workspace is built k times "
                "with shuffled shard/module order and perturbed environment (one of the builds compiles the macro crate itself without debug assertions); records grouped by (variant, attr, input) must "
                "agree on the output tokens (spacing included). non-trivial = group with >= 3 observations from >= 2 processes")
    n = 500 if tier == "quick" else 2500
    builds = 3 if tier == "quick" else 6
    rng = core.rng_for(PROP, seed)
    base = expand_corpus.corpus("b", n, rng)
    for i in range(n // 3):
        b = FnCaseBuilder("r_%05d" % i, rng, profile={"forms": ["wild", "destr", "destr", "plain", "mut"], "max_arity": 8}).build()
        c = b.case()
        c.run = False
        base.append(c)
    # parameter lists full of names that collide with the fn name / with generated names (largest rename sets)
    from . import c16
    syms = sorted(c16.ALPHABET)
    k = 0
    while k < n // 3:
        lst = tuple(rng.choice(syms) for _ in range(rng.randint(3, 6)))
        if rng.random() < 0.25:
            # the largest rename sets: the fn's own name next to the names its renaming would pick (`foo`, `foo_`, `foo__`)
            core_ = [rng.choice(["=fn", "r#=fn", "N(=fn)", "mut =fn"]), "=fn_", "=fn__"][:rng.randint(2, 3)]
            # (with a pattern that has no name of its own, all three stages of the naming run)
            lst = list(core_) + ([rng.choice(["_", "(a,b)", "N2(a,_)"])] if rng.random() < 0.7 else []) + [rng.choice(syms) for _ in range(rng.randint(0, 3))]
            rng.shuffle(lst)
            lst = tuple(lst)
        if not c16.valid(lst):
            continue
        f = c16.make_fn(lst, rng.random() < 0.3)
        src = "#[::entrait::entrait(Subj%s)] /*@inv*/\n%s\n" % (", no_deps" if f.deps_kind == "no_deps" else "", f.source(""))
        base.append(core.Case("n_%05d" % k, src, run=False, expect="expand"))
        k += 1
    # entraited traits with every delegation / mock option
    from ..gen import traits as gtraits
    TRAIT_ATTRS = ["", "TImpl, delegate_by = DelegateT", "pub TImpl, delegate_by = ref", "TImpl, delegate_by=ref", "delegate_by = Borrow",
                   "delegate_by = ref", "delegate_by = Self", "delegate_by = SomeTrait", "mock_api = TMock", "unimock, mock_api = TMock",
                   "mockall", "TImpl, delegate_by = DelegateT, mock_api = TMock, unimock = false", "pub(crate) TImpl, delegate_by = Borrow"]
    for i in range(n // 3):
        t = gtraits.random_trait(rng, "Subj", with_async_trait=rng.random() < 0.2)
        src = "#[::entrait::%s(%s)] /*@inv*/\n%s\n" % (rng.choice(["entrait", "entrait_export"]), rng.choice(TRAIT_ATTRS), t.source())
        base.append(core.Case("t_%05d" % i, src, run=False, expect="expand"))
    # a tiny shared vocabulary of trait / fn / type names: what one invocation generates is what another one mentions in its
    # bounds, so that a memo, registry or counter keyed on names would make an expansion depend on the ones before it
    VOC = ["Alpha", "Beta", "Gamma", "Delta"]
    OPTS = ["", "", "?Send", "?Send", "no_deps", "mock_api = M", "unimock", "mockall", "export", "box_future", "delegate_by = ref",
            "unimock = false", "?Send, mock_api = M"]
    for i in range(n // 2):
        name = rng.choice(VOC)
        bounds = rng.sample(VOC, rng.randint(0, 3))
        opt = rng.choice(OPTS)
        asy = "async " if rng.random() < 0.6 else ""
        kind = rng.choice(["fn", "fn", "fn", "mod", "trait", "impl"])
        dep = "deps: &(impl %s)" % " + ".join(bounds) if bounds and rng.random() < 0.5 else \
            ("deps: &D" if bounds else "deps: &impl ::core::marker::Sized")
        gen = "<D: %s>" % " + ".join(bounds) if dep == "deps: &D" else ""
        if "no_deps" in opt:
            dep, gen = "x: %s" % rng.choice(VOC), ""
        fname = name.lower()
        if kind == "fn":
            src = "#[::entrait::entrait(%s%s)] /*@inv*/\n%sfn %s%s(%s, v: i32) -> i32 { v }\n" % (
                rng.choice(["", "pub "]) + name, ", " + opt if opt else "", asy, fname, gen, dep)
        elif kind == "mod":
            src = "#[::entrait::entrait(%s%s)] /*@inv*/\nmod %s { pub %sfn %s%s(%s, v: i32) -> i32 { v } pub fn other%s(%s) {} }\n" % (
                name, ", " + opt if opt else "", fname, asy, fname, gen, dep, gen, dep)
        elif kind == "trait":
            topt = rng.choice(["", "?Send", "delegate_by = ref", "%sImpl, delegate_by = Delegate%s" % (name, name), "mock_api = M", "delegate_by = %s" % rng.choice(VOC),
                               "%sImpl, delegate_by = ref" % name, "%sImpl, delegate_by = Borrow" % name, "pub %sImpl, delegate_by = ref" % rng.choice(VOC)])
            src = "#[::entrait::entrait(%s)] /*@inv*/\ntrait %s%s { %sfn %s(&self, v: i32) -> i32; }\n" % (
                topt, name, ": " + " + ".join(bounds) if bounds else "", asy, fname)
        else:
            iopt = rng.choice(["", "?Send", "ref", "dyn", "?Send, ref"])
            src = "#[::entrait::entrait(%s)] /*@inv*/\nimpl %s%s for %s { %sfn %s%s(%s, v: i32) -> i32 { v } }\n" % (
                iopt, name, "Impl" if rng.random() < 0.5 else "", rng.choice(VOC), "pub " + asy, fname, gen, dep)
        base.append(core.Case("h_%05d" % i, src, run=False, expect="expand"))
    groups = {}
    total_records = 0
    procs = set()
    envs = [
        {},
        # (this build also compiles the proc-macro crate itself under another profile: no debug assertions, as `--release` does)
        {"HOME": "/tmp", "CARGO_HOME": os.path.expanduser("~/.cargo"), "RUSTUP_HOME": os.path.expanduser("~/.rustup"), "LANG": "tr_TR.UTF-8", "TZ": "Pacific/Kiritimati", "SOURCE_DATE_EPOCH": "1", "RUST_BACKTRACE": "full",
         "ENTRAIT_DEBUG": "1", "ENTRAIT_SEED": "42", "CARGO_BUILD_JOBS": "1",
         "CARGO_PROFILE_DEV_BUILD_OVERRIDE_DEBUG_ASSERTIONS": "false", "CARGO_PROFILE_DEV_BUILD_OVERRIDE_OVERFLOW_CHECKS": "false"},
        {"LC_ALL": "C", "RUST_LOG": "trace", "ENTRAIT_VERIF": "x", "CARGO_BUILD_JOBS": "3", "RUST_MIN_STACK": "16777216"},
        {"CARGO_BUILD_JOBS": "16", "RUSTC_BOOTSTRAP": "0", "USER": "someone-else", "COLUMNS": "20"},
        {"CARGO_BUILD_JOBS": "2", "TMPDIR": "/var/tmp", "NO_COLOR": "1"},
        {"CARGO_BUILD_JOBS": "7", "RUST_BACKTRACE": "1", "LANG": "ja_JP.UTF-8"},
    ]
    panics = 0
    respelled = 0
    for b in range(builds):
        # instantiate every source 2-5 times under fresh case ids, in shuffled order
        inst = []
        slow = int(envs[b % len(envs)].get("CARGO_BUILD_JOBS", "16")) <= 3
        for c in base:
            if slow and tier != "quick" and rng.random() < 0.7:
                continue   # builds with very few jobs only take a sample of the corpus (wall-clock budget)
            for d in range(rng.randint(2, 5) if b == 0 else rng.randint(1, 2)):
                cid = "i%d_%d_%s" % (b, d, c.id)
                # every instance sits at its own line / column (blank lines and a block comment in front of it)
                shift = "\n" * rng.randint(0, 40) + ("/*" + "-" * rng.randint(0, 30) + "*/ " if rng.random() < 0.7 else "")
                src_i = c.src.replace(c.id, "IDENT")
                if rng.random() < 0.4:
                    # the same tokens in another spelling: a doc comment `/// text` *is* the attribute `#[doc = " text"]` (and `//! text`
                    # is `#![doc = " text"]`) by the time the macro sees it - an expansion that tells them apart reads the source file
                    import re as _re
                    esc_ = lambda t_: t_.replace("\\", "\\\\").replace('"', '\\"')
                    src_i = _re.sub(r"(?m)^(\s*)///(?!/)(.*)$", lambda m_: '%s#[doc = "%s"]' % (m_.group(1), esc_(m_.group(2))), src_i)
                    src_i = _re.sub(r"(?m)^(\s*)//!(.*)$", lambda m_: '%s#![doc = "%s"]' % (m_.group(1), esc_(m_.group(2))), src_i)
                    respelled += 1
                inst.append(core.Case(cid, shift + src_i, run=False, expect="expand"))
        rng.shuffle(inst)
        ws = core.Workspace(PROP, "b%d" % b, expand_only=True, vattr=True, nshards=rng.choice([5, 8, 16, 11]))
        ws.extend(inst)
        ws.write()
        env_b = dict(envs[b % len(envs)])
        alt = None
        if tier != "quick" and b == builds - 1:
            # one build in a separate target directory (everything, including entrait_macros itself, is rebuilt there)
            import shutil
            alt = core.WORK / "c20" / "alt_target"
            if alt.exists():
                shutil.rmtree(alt)
            env_b["CARGO_TARGET_DIR"] = str(alt)
            env_b["CARGO_BUILD_JOBS"] = "16"
        ws.build(env_extra=env_b, timeout=3600)
        if alt is not None:
            import shutil
            shutil.rmtree(alt, ignore_errors=True)
        if len(ws.all_records) < len(inst):
            # (a build that recorded nothing explored nothing: the perturbed environment broke the build itself)
            raise core.Inconclusive("build %d recorded %d expansions for %d invocations (environment %s)" % (b, len(ws.all_records), len(inst), sorted(env_b)))
        for r in ws.all_records:
            total_records += 1
            if r["status"] != "end":
                panics += 1
                continue
            k = key_of(r)
            procs.add((b, r["pid"]))
            g = groups.setdefault(k, {"outs": {}, "obs": [], "first": r})
            oh = hashlib.sha1(repr(tok.leaves(r["output"], True)).encode()).hexdigest()
            g["outs"].setdefault(oh, r)
            g["obs"].append((b, r["pid"], r["seq"]))
    for k, g in groups.items():
        nt = len(g["obs"]) >= 3 and len({(b, p) for b, p, _ in g["obs"]}) >= 2
        rep.count(k, nt)
        if len(g["outs"]) > 1:
            outs = list(g["outs"].values())
            a, b2 = tok.leaves(outs[0]["output"], True), tok.leaves(outs[1]["output"], True)
            d = next((i for i, (x, y) in enumerate(zip(a, b2)) if x != y), min(len(a), len(b2)))
            rep.violation(os.path.basename(g["first"]["file"]).replace(".rs", ""), "nondeterministic-output",
                          "same (variant, attr, input) expanded to %d different outputs; first difference at leaf %d: %s vs %s" % (
                              len(g["outs"]), d, a[d:d + 6], b2[d:d + 6]),
                          {"attr": tok.render(g["first"]["attr"]), "input": tok.render(g["first"]["input"], 2000),
                           "out_a": tok.render(outs[0]["output"], 4000), "out_b": tok.render(outs[1]["output"], 4000)})
        rep.sample({"attr": tok.render(g["first"]["attr"]), "input": tok.render(g["first"]["input"], 300),
                    "observations": len(g["obs"]), "processes": len({(b, p) for b, p, _ in g["obs"]}),
                    "distinct_outputs": len(g["outs"])}, limit=3)
    rep.extra.update({"expansion_records": total_records, "compiler_processes": len(procs), "builds": builds,
                      "input_groups": len(groups), "records_without_end": panics, "instances_with_doc_comments_respelled_as_attributes": respelled,
                      "max_observations_per_group": max((len(g["obs"]) for g in groups.values()), default=0)})
    core.floors(rep, expansion_records=n * 3, compiler_processes=10)
    return rep.finish({})
