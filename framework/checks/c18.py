"""C18 - foreign attributes stay where the user put them.
Channels: recorder (where attributes end up in the expansion), the log of the foreign attribute
macro `vattr::mark` (how often it ran and what it received), compiler + run (cfg-disabled members
leave nothing dangling; enabled ones are callable)."""
import json
import os
from pathlib import Path
from .. import core, tok, selftest
from ..core import Case
from ..gen.fns import FnSpec, Param, TYPES
from ..gen.fncases import FnCaseBuilder, random_fn
from . import c01

PROP = "C18"

FN_ATTRS = ["/// doc on the fn", "#[doc = \"explicit\"]", "#[inline]", "#[inline(always)]", "#[must_use]", "#[allow(unused_variables)]",
            "#[allow(clippy::too_many_arguments)]", "#[cfg_attr(all(), inline)]", "#[deprecated(note = \"n\")]", "#[track_caller]"]
PARAM_ATTRS = ["#[allow(unused)] ", "#[allow(unused_variables, non_snake_case)] ", "#[cfg(all())] ", "#[doc(hidden)] " if False else "#[cfg_attr(all(), allow(unused))] "]
OWNED_OK = ("async_trait", "automock", "entrait", "unimock", "cfg_attr")


def load_vattr(dump):
    out = []
    for f in sorted(Path(dump).glob("vattr-*.jsonl")):
        for line in f.read_text().split("\n"):
            if line.strip():
                out.append(json.loads(line))
    return out


def decorate(rng, f, tag, with_mark):
    f.attrs = rng.sample(FN_ATTRS, rng.randint(1, 3))
    if "#[track_caller]" in f.attrs and (f.is_async or f.extern_c):
        f.attrs.remove("#[track_caller]")
    if "#[inline(always)]" in f.attrs and "#[inline]" in f.attrs:
        f.attrs.remove("#[inline]")
    if "#[cfg_attr(all(), inline)]" in f.attrs and any(a.startswith("#[inline") for a in f.attrs):
        f.attrs.remove("#[cfg_attr(all(), inline)]")
    if with_mark:
        # rustc evaluates cfg / cfg_attr before it hands the item to the lower macro: keep the witness comparison exact
        f.attrs = [a for a in f.attrs if "cfg" not in a] or ["#[inline]"]
        f.attrs.insert(rng.randint(0, len(f.attrs)), "#[::vattr::mark(%s)]" % tag)
    for p in f.params:
        if rng.random() < 0.5:
            p.attr = rng.choice(PARAM_ATTRS[:2] if with_mark else PARAM_ATTRS)
        if with_mark and rng.random() < 0.4:
            p.attr += "#[vp(%s)] " % tag
    f.meta_mark = tag if with_mark else None


def generated_part(r):
    inp, out = r["input"], r["output"]
    kind = tok.item_kind(inp)["kind"]
    if kind == "mod":
        bi = tok.find_brace(inp)
        return tok.split_items(out[bi]["s"][len(inp[bi]["s"]):])
    if kind == "fn":
        return tok.split_items(out[len(inp):])
    if kind == "impl":
        return tok.split_items(out)[1:]
    return tok.split_items(out)


def is_cfg_only_cfg_attr(a):
    """`cfg_attr(predicate, cfg(..), cfg(..))`: the part of a `cfg_attr` that decides whether the fn exists (mirrored like `cfg`)."""
    if tok.attr_path(a) != "cfg_attr" or len(a) != 2 or not tok.is_g(a[1], "("):
        return False
    parts = tok.split_commas(a[1]["s"])
    return len(parts) >= 2 and all(len(p_) == 2 and tok.is_g(p_[1], "(") and (tok.is_i(p_[0], "cfg") or is_cfg_only_cfg_attr(p_)) for p_ in parts[1:])


def check_generated_attrs(c, r, rep, allow_cfg_mirror):
    """No user attribute on generated trait / impl / their methods; no attribute on generated parameters."""
    for it in generated_part(r):
        k = tok.item_kind(it)
        if k["kind"] not in ("trait", "impl"):
            continue
        for a in k["attrs"]:
            last = tok.attr_path(a).split("::")[-1]
            if last not in OWNED_OK:
                rep.violation(c.id, "attr-copied:%s:%s" % (k["kind"], last), "user attribute `%s` copied onto the generated %s" % (tok.render(a), k["kind"]))
        body = it[-1]["s"]
        for m in tok.split_items(body):
            mk = tok.item_kind(m)
            if mk["kind"] != "fn":
                continue
            for a in mk["attrs"]:
                last = tok.attr_path(a).split("::")[-1]
                if not (allow_cfg_mirror and (last == "cfg" or is_cfg_only_cfg_attr(a))):
                    rep.violation(c.id, "attr-copied:method:%s" % last, "attribute `%s` on generated method `%s` of the %s" % (tok.render(a), mk["name"], k["kind"]))
            par = next(t for t in m[mk["at"]:] if tok.is_g(t, "("))
            if any(tok.is_p(t, "#") for t in par["s"]):
                rep.violation(c.id, "param-attr-kept", "parameter attribute survives in generated signature: %s" % tok.render(par["s"], 300))
            rep.bump("generated_methods_checked")


def fn_case(cid, rng, mode):
    b = FnCaseBuilder(cid, rng, mode=mode, options=[], macro="entrait",
                      profile={"p_extern": 0.0, "p_unsafe": 0.05, "forms": ["plain"] * 6 + ["mut", "wild", "destr"]})
    b.build()
    marks = []
    for i, f in enumerate(b.fns):
        wm = rng.random() < 0.6
        decorate(rng, f, "%s_%d" % (cid, i), wm)
        if wm:
            marks.append("%s_%d" % (cid, i))
    cfg_gone, cfg_kept = [], []
    i0 = next(k for k, l in enumerate(b.lines) if "/*@inv*/" in l)
    head = b.lines[:i0 + 1]
    if mode == "fn":
        b.lines = head + [b.fns[0].source("")]
    else:
        modhead = b.lines[i0 + 1:i0 + 4]
        body = [f.source("    ") for f in b.fns]
        if rng.random() < 0.7:
            pre = rng.choice(["", "", "/// docs first\n    ", "#[inline]\n    ", "#[allow(unused)] #[doc(hidden)]\n    "])
            post = rng.choice(["", "", " #[inline]", " #[cfg(all())]"])
            # (the predicate may also reach the fn through a `cfg_attr`)
            gate = rng.choice(["#[cfg(any())]", "#[cfg(any())]", "#[cfg_attr(all(), cfg(any()))]", "#[cfg_attr(not(any()), allow(unused), cfg(not(all())))]",
                               "#[cfg_attr(all(), cfg_attr(all(), cfg(any())))]", "#[cfg_attr(true, cfg(false))]", "#[cfg_attr(true, inline, cfg_attr(not(false), cfg(any())))]"])
            body.insert(rng.randint(0, len(body)), "    %s%s%s pub fn gone<D>(deps: &D, x: i32) -> i32 { this_does_not_exist(x) }" % (pre, gate, post))
            cfg_gone.append("gone")
        if rng.random() < 0.7 and not any(f.type_params or f.const_params for f in b.fns):
            # (an enabled gate: a plain cfg, or a cfg_attr whose predicate is false - its cfg(..) then never applies - or true with a true cfg)
            kgate = rng.choice(["#[cfg(all())]", "#[cfg(all())]", "#[cfg_attr(any(), cfg(any()))]", "#[cfg_attr(false, cfg(false))]", "#[cfg_attr(all(), cfg(all()))]",
                                "#[cfg_attr(feature = \"c18_lean\", cfg(feature = \"c18_diag\"))]"])
            body.insert(rng.randint(0, len(body)), "    %s pub fn kept<D>(deps: &D, x: i32) -> i32 { ::vrt::enter(\"%s::kept\", ::vrt::tn(deps), ::vrt::addr(deps), &[&x as &dyn ::core::fmt::Debug]); x }" % (kgate, cid))
            cfg_kept.append("kept")
        b.lines = head + modhead + body + ["}"]
    c = b.case()
    if cfg_kept:
        c.src = c.src.rstrip()[:-1] + '    ::vrt::phase("kept"); let r = app.kept(77); ::vrt::result(&r);\n}\n'
    c.meta.update({"family": mode, "marks": marks, "cfg_gone": cfg_gone, "cfg_kept": cfg_kept,
                   "nontrivial": bool(marks or cfg_gone or cfg_kept)})
    return c


def trait_case(cid, rng, inversion):
    """Entraited trait whose methods carry attributes incl. enabled/disabled cfg; optional impl block with cfg'd fns."""
    L = []
    opts = "TrImpl, delegate_by = DelegateTr" if inversion else rng.choice(["", "delegate_by = Self"])
    ms = []
    for i in range(rng.randint(2, 4)):
        cfg = rng.choice(["", "", "#[cfg(all())]", "#[cfg(any())]", "#[cfg_attr(all(), cfg(any()))]"])
        # (`#[deprecated]` is not used: rustc rejects it on trait-impl items, and the statement demands mirroring)
        extra = rng.sample(["/// method doc", "#[allow(unused)]", "#[must_use]", "#[inline]", "#[doc(hidden)]"], rng.randint(0, 2))
        ms.append(("m%d" % i, cfg, extra))
    # a third of the methods are async (desugared by the macro: the delegating method is generated on another path)
    asy = {name: ("async " if rng.random() < 0.35 else "") for name, _c, _e in ms}
    L.append("#[::entrait::entrait(%s)] /*@inv*/" % opts)
    # attributes below entrait on the trait itself: they stay on the user's trait and on nothing that is generated
    tattrs = rng.sample(["/// trait docs", "#[allow(dead_code)]", "#[doc(hidden)]", "#[allow(clippy::all)]", "#[::vattr::mark(%s_t)]" % cid], rng.randint(0, 3))
    L += tattrs
    L.append("pub trait Tr {")
    for name, cfg, extra in ms:
        for a in ([cfg] if cfg else []) + extra:
            L.append("    " + a)
        L.append("    %sfn %s(&self, a: i32) -> i32;" % (asy[name], name))
    L.append("}")
    enabled = [m for m in ms if "any()" not in m[1]]
    if not inversion:
        L.append("pub struct Prov;")
        L.append("impl Tr for Prov {")
        for name, cfg, extra in ms:
            if cfg:
                L.append("    " + cfg)
            L.append('    %sfn %s(&self, a: i32) -> i32 { ::vrt::enter("%s::Prov::%s", ::vrt::tn(self), ::vrt::addr(self), &[&a as &dyn ::core::fmt::Debug]); a + 1 }' % (asy[name], name, cid, name))
        L.append("}")
        ctor = "Prov"
    else:
        L.append("pub struct Target;")
        L.append("#[::entrait::entrait] /*@impl*/")
        # attributes below entrait on the block: they stay on the user's (inherent) block, once - also a foreign macro that
        # happens to be called `automock`, a name entrait classifies
        battrs = rng.sample(["/// block docs", "#[allow(dead_code)]", "#[::vattr::mark(%s_b)]" % cid, "#[::vattr::automock(%s_b)]" % cid, "#[doc(hidden)]"], rng.randint(0, 2))
        if sum("vattr" in a for a in battrs) == 2:
            battrs = battrs[:1]
        L += battrs
        L.append("impl TrImpl for Target {")
        for name, cfg, extra in ms:
            if cfg:
                L.append("    " + rng.choice(["", "", "/// docs first\n    ", "#[allow(unused)]\n    "]) + cfg)
            body = '{ ::vrt::enter("%s::Target::%s", ::vrt::tn(deps), ::vrt::addr(deps), &[&a as &dyn ::core::fmt::Debug]); a + 1 }' % (cid, name)
            if "any()" in cfg:
                body = "{ this_does_not_exist(a) }"
            L.append("    %sfn %s<D>(deps: &D, a: i32) -> i32 %s" % (asy[name], name, body))
        L.append("}")
        L.append("pub struct App; impl DelegateTr<Self> for App { type Target = Target; }")
        ctor = "App"
    D = ["pub fn run() {", "    let app = ::entrait::Impl::new(%s);" % ctor]
    for name, cfg, extra in enabled:
        D.append('    ::vrt::phase("%s"); let r = %s; ::vrt::result(&r);' % (name, ("::vrt::block_on(app.%s(5))" if asy[name] else "app.%s(5)") % name))
    D.append("}")
    meta = {"family": "trait-inversion" if inversion else "trait", "methods": ms, "enabled": [m[0] for m in enabled],
            "nontrivial": any(m[1] for m in ms) or bool(tattrs), "marks": [], "trait_attrs": tattrs,
            "trait_mark": ("%s_t" % cid) if any("vattr" in a for a in tattrs) else None,
            "block_mark": ("%s_b" % cid) if inversion and any("vattr" in a for a in battrs) else None}
    return Case(cid, "\n".join(L + D) + "\n", meta=meta)


def check_case(c, rep, vlog):
    m = c.meta
    fam = m["family"]
    if c.removed is not None:
        d = (c.removed["diags"] or [{}])[0]
        pinned = None
        rep.violation(c.id, "compile:%s:%s:%s" % (fam, d.get("code"), d.get("message", "")[:50]),
                      "does not compile (%s; cfg-disabled members: %s): %s" % (fam, m.get("cfg_gone") or [x[0] for x in m.get("methods", []) if x[1] == "#[cfg(any())]"], d.get("message", "")[:300]))
        rep.count(c.sig(), m["nontrivial"])
        return
    rec = c.runrec.get("bin")
    if not rec or rec.get("panic") or rec.get("crash"):
        rep.violation(c.id, "crash-or-panic", "case died: %s" % (rec,))
        return
    recs = [r for r in c.records if r["status"] == "end"]
    if fam in ("fn", "mod"):
        c01.check_case(c, rep)
        top = [r for r in recs if r["line"] == c.marks["inv"]]
        if not top:
            raise core.Inconclusive("no record for %s" % c.id)
        check_generated_attrs(c, top[0], rep, allow_cfg_mirror=(fam == "mod"))
        if m["cfg_kept"]:
            ph = {p["label"]: p for p in rec["phases"]}
            k = ph.get("kept")
            if not k or k["result"] != "77" or [e["fn"] for e in k["events"]] != ["%s::kept" % c.id]:
                rep.violation(c.id, "cfg-enabled-not-callable", "#[cfg(all())] member is not reachable through the trait: %s" % (k,))
            else:
                rep.bump("cfg_enabled_members_called")
        if m["cfg_gone"]:
            rep.bump("cfg_disabled_members_compiled")
        # the foreign macro saw each marked fn exactly once, and saw the fn as written (minus its own attribute)
        for tag in m["marks"]:
            hits = [v for v in vlog if tok.render(v["attr"]) == tag]
            if len(hits) != 1:
                rep.violation(c.id, "foreign-macro-ran:%d" % len(hits), "#[vattr::mark(%s)] ran %d times, expected exactly once" % (tag, len(hits)))
                continue
            item = hits[0]["item"]
            # locate the fn in the entrait input
            inp = top[0]["input"]
            if fam == "mod":
                bi = tok.find_brace(inp)
                cands = tok.split_items(inp[bi]["s"])
            else:
                cands = [inp]
            want = None
            for it in cands:
                attrs, i = tok.split_attrs(it)
                if any(tok.attr_path(a) == "::vattr::mark" and tag in tok.render(a) for a in attrs):
                    kept = []
                    for a in attrs:
                        if tok.attr_path(a) == "::vattr::mark" and tag in tok.render(a):
                            continue
                        kept += [{"p": "#"}, {"g": "[", "s": a}]
                    want = kept + it[i:]
            if want is None:
                raise core.Inconclusive("marked fn not found in input of %s" % c.id)
            if tok.leaves(item) != tok.leaves(want):
                li, lw = tok.leaves(item), tok.leaves(want)
                d = next((q for q, (x, y) in enumerate(zip(li, lw)) if x != y), min(len(li), len(lw)))
                rep.violation(c.id, "foreign-macro-input", "vattr::mark(%s) received a different item than written; first difference at leaf %d: %s vs %s" % (tag, d, li[d:d + 6], lw[d:d + 6]))
            else:
                rep.bump("foreign_macro_witnesses")
    else:
        top = [r for r in recs if r["line"] == c.marks["inv"]]
        if not top:
            raise core.Inconclusive("no record for %s" % c.id)
        r = top[0]
        # method attributes mirrored onto the delegating methods of `impl Tr for Impl<T>`
        items = tok.split_items(r["output"])
        inp_items = tok.split_items(r["input"][tok.find_brace(r["input"])]["s"])
        want = {tok.item_kind(x)["name"]: [tok.leaves(a) for a in tok.item_kind(x)["attrs"]] for x in inp_items}
        impl = next((it for it in items if tok.item_kind(it)["kind"] == "impl"), None)
        if impl is None:
            raise core.Inconclusive("no impl in output of %s" % c.id)
        got = {tok.item_kind(x)["name"]: [tok.leaves(a) for a in tok.item_kind(x)["attrs"]] for x in tok.split_items(impl[-1]["s"])}
        for name, attrs in want.items():
            if got.get(name) != attrs:
                rep.violation(c.id, "method-attrs-not-mirrored", "attributes of trait method `%s` are not mirrored onto the delegating method: %s vs %s" % (name, got.get(name), attrs))
            else:
                rep.bump("mirrored_method_attr_sets")
        ph = {p["label"]: p for p in rec["phases"]}
        for name in m["enabled"]:
            p = ph.get(name)
            if not p or p["result"] != "6" or len(p["events"]) != 1:
                rep.violation(c.id, "enabled-method-broken", "enabled method %s: %s" % (name, p))
            else:
                rep.bump("cfg_enabled_members_called")
        # trait-level attributes: on the re-emitted trait only, on no other generated item (C09 judges the trait itself)
        user_attrs = {tuple(tok.leaves(a)) for a in tok.item_kind(r["input"])["attrs"]}
        if m.get("trait_mark"):
            # the foreign macro has already run when entrait sees the trait; what it must not do is run again
            hits = [v for v in vlog if tok.render(v["attr"]) == m["trait_mark"]]
            if len(hits) != 1:
                rep.violation(c.id, "foreign-macro-ran:%d" % len(hits), "#[vattr::mark(%s)] on the trait ran %d times, expected exactly once" % (m["trait_mark"], len(hits)))
            else:
                rep.bump("foreign_macro_witnesses")
        if m.get("block_mark"):
            # the foreign macro on the impl block runs on what entrait emits for the user's block: exactly once
            hits = [v for v in vlog if tok.render(v["attr"]) == m["block_mark"]]
            if len(hits) != 1:
                rep.violation(c.id, "foreign-macro-ran:block:%d" % len(hits), "the foreign attribute (%s) on the impl block ran %d times, expected exactly once" % (m["block_mark"], len(hits)))
            else:
                rep.bump("foreign_macro_witnesses")
        for it in items[1:]:
            k = tok.item_kind(it)
            copied = [tok.render(a) for a in k["attrs"] if tuple(tok.leaves(a)) in user_attrs]
            if copied:
                rep.violation(c.id, "trait-attr-copied:%s" % k["kind"], "attributes of the entraited trait were copied onto the generated %s `%s`: %s" % (k["kind"], k.get("name"), copied))
        if fam == "trait-inversion":
            blk = [x for x in recs if x["line"] == c.marks["impl"]]
            if blk:
                check_generated_attrs(c, blk[0], rep, allow_cfg_mirror=True)
        if any(x[1] == "#[cfg(any())]" for x in m["methods"]):
            rep.bump("cfg_disabled_members_compiled")
    rep.bucket("families", fam)
    if fam not in ("fn", "mod"):   # fn/mod cases were counted by the C01 oracle above
        rep.count(c.sig(), m["nontrivial"])
    else:
        if m["nontrivial"]:
            rep.nontrivial.add(c.sig())
    rep.sample({"case": c.id, "family": fam, "source": c.src[:900]}, limit=3)


def run(tier, seed):
    rep = core.Report(PROP, tier, seed)
    rep.rule = ("fn and module cases whose fns carry docs/lints/inline/cfg_attr and the foreign `#[vattr::mark(tag)]` (with `#[vp]` helper "
                "attributes on parameters), parameter attributes, `#[cfg(any())]` / `#[cfg(all())]` module members; entraited traits with "
                "attributes and enabled/disabled cfg on methods, with and without an impl block whose fns carry the same cfg. "
                "non-trivial = a foreign attribute below entrait or a cfg'd member")
    n = 300 if tier == "quick" else 3000
    rng = core.rng_for(PROP, seed)
    cases = []
    for i in range(n):
        r = rng.random()
        if r < 0.35:
            cases.append(fn_case("c18f_%04d" % i, rng, "fn"))
        elif r < 0.7:
            cases.append(fn_case("c18m_%04d" % i, rng, "mod"))
        elif r < 0.85:
            cases.append(trait_case("c18t_%04d" % i, rng, False))
        else:
            cases.append(trait_case("c18i_%04d" % i, rng, True))
    # pinned input of a recorded finding (K13): a parameter that a disabled cfg removes from the fn
    pin = Case("c18known_cfg_disabled_param", """#[::entrait::entrait(pub Subj)] /*@inv*/
fn subj<D>(deps: &D, #[cfg(any())] ghost: ::no::such::Type, a: i32) -> i32 { a }
pub fn run() { let app = ::entrait::Impl::new(()); let _ = app.subj(1); }
""", meta={"pin": "cfg_disabled_param"})
    st = selftest.case("selftest_c18")
    ws = core.Workspace(PROP, "x", vattr=True)
    ws.extend(cases + [st, pin])
    ws.write()
    b = ws.build()
    ws.run(b["exes"])
    selftest.verify(st)
    # vattr logs of every round that compiled a shard last
    vlog = []
    seen = set()
    for d in sorted((core.WORK / "c18").glob("dump_x/*")):
        for v in load_vattr(d):
            vlog.append(v)
    ws_vlog = getattr(ws, "vlog", None)
    for c in cases:
        check_case(c, rep, ws.vattr_log)
    if pin.removed is not None:
        d = (pin.removed["diags"] or [{}])[0]
        rep.violation(pin.id, "compile:cfg-disabled-param:%s" % d.get("code"), "a parameter removed by a disabled cfg is kept (without the cfg) in the generated method: %s" % d.get("message", "")[:200],
                      pinned="cfg_disabled_param")
    core.floors(rep, generated_methods_checked=n, foreign_macro_witnesses=n // 8, cfg_enabled_members_called=n // 10)
    return rep.finish({c.id: c for c in cases + [pin]})
