"""C11 - unimock wiring: named mock API, and un-mocked calls reach the real function.
Test builds with the `unimock` cargo feature. Oracle: (a) a clause registered through exactly the
`mock_api` path and matching the caller's arguments *in declared order* (distinct values per
parameter) answers the call and the original fn does not run; (b) on a partial mock the original fn
runs once with the Unimock object as its dependency and gives the Impl<T> result; (c) concrete-deps
fns and entraited traits are not un-mockable; (R) shape of `unmock_with` on the recorded trait."""
import copy
from .. import core, tok, selftest
from ..core import Case
from ..gen.fns import FnSpec, Param, Ty, TYPES, SUPPORT, PLAIN_NAMES
from ..gen.fncases import random_fn, APP_DEF

PROP = "C11"

PROFILE = dict(deps_kinds=["generic_ref"] * 3 + ["impl_ref"] * 3 + ["no_deps"], max_arity=5,
               forms=["plain"] * 7 + ["wild", "destr", "destr"], types=["i32", "i32", "u8", "bool", "str", "tup", "N"],
               rets=["owned", "owned", "unit"], p_async=0.35, p_unsafe=0.12, p_extern=0.0, p_generic_param=0.0, p_lifetimes=0.0,
               p_const=0.0, vis=["", "pub", "pub(crate)"], p_same_type=0.7)


def pattern_of(expr):
    # a `&mut` argument cannot be compared by value in `matching!`: it is matched by a wildcard
    return "_" if expr.startswith("&mut ") else expr


def _mutlit(k, u):
    return None, "&mut %di32" % (1000 + k), str(1000 + k), None


# `&mut` parameters (a temporary as argument: no set-up statement needed); no_deps fns name every parameter in `unmock_with`
MUT_TY = Ty("mutref", "&mut i32", _mutlit)


def build_fnmod(cid, rng):
    mode = rng.choice(["fn", "fn", "mod"])
    macro = rng.choice(["entrait", "entrait_export"])
    L = [APP_DEF]
    # mockable helper deps
    helpers = []
    for i in range(rng.randint(0, 2)):
        fid = "%s::h%d" % (cid, i)
        L.append("#[::entrait::entrait(pub H%d, mock_api = H%dMock)]" % (i, i))
        L.append('fn h%d<D>(deps: &D, x: i32) -> i32 { ::vrt::enter("%s", ::vrt::tn(deps), ::vrt::addr(deps), &[&x as &dyn ::core::fmt::Debug]); x }' % (i, fid))
        helpers.append(("H%d" % i, "h%d" % i, fid, False))
    fns = []
    if mode == "fn":
        f = random_fn(rng, "subj", PROFILE, helpers)
        fns = [f]
    else:
        n = rng.randint(2, 4)
        same = rng.random() < 0.6
        tmpl = None
        # declaration order is unrelated to any order of the names (alphabetical, by length, ...)
        mnames = rng.sample(["zz_last", "aa_first", "mm_mid", "bb", "yy_longer_name", "m10", "m9", "r#loop", "Upper", "_under"], n)
        for i in range(n):
            if same and tmpl is not None:
                f = copy.deepcopy(tmpl)
                f.name = mnames[i]
            else:
                prof = dict(PROFILE)
                prof["deps_kinds"] = ["generic_ref", "impl_ref"]
                f = random_fn(rng, mnames[i], prof, helpers, in_module=True)
                tmpl = copy.deepcopy(f)
            fns.append(f)
    for f in fns:
        for p_ in f.params:
            if p_.ty.key == "i32" and p_.form in ("plain", "wild") and not p_.generic and rng.random() < 0.25:
                p_.ty = MUT_TY
        if rng.random() < 0.3 and not f.lifetimes:
            # an explicit lifetime parameter (it stays on the trait method: type and const parameters would be lifted)
            f.lifetimes.append(("'q", []))
            for p_ in f.params:
                if p_.ty.key == "str" and p_.form == "plain" and not p_.generic:
                    p_.generic = "&'q str"
                    break
        f.fn_id = "%s::%s" % (cid, f.name)
        f.calls = [c for c in f.calls if not c[3]]
        if mode == "mod" and rng.random() < 0.35:
            # an *enabled* cfg: the fn exists, is mirrored with its cfg onto the trait, and must stay un-mockable
            f.attrs.append(rng.choice(["#[cfg(all())]", "#[cfg(not(any()))]", "#[cfg(any(unix, windows, not(unix)))]"]))
    no_deps = mode == "fn" and fns[0].deps_kind == "no_deps"
    opts = ["mock_api = SubjMock"] + (["no_deps"] if no_deps else []) + rng.choice([[], [], ["unimock = true"], ["unimock"], ["export = false"] if macro == "entrait" else []])
    rng.shuffle(opts)
    L += sorted({SUPPORT[n] for f in fns for p in f.params for n in p.ty.needs})
    L.append("#[::entrait::%s(%s)] /*@inv*/" % (macro, ", ".join(["pub Subj"] + opts)))
    if mode == "fn":
        L.append(fns[0].source(""))
        api = lambda f: "SubjMock"
        prefix = ""
    else:
        L.append("pub mod subject_mod {\n    use super::*;")
        for f in fns:
            if not f.vis:
                f.vis = "pub"
            L.append(f.source("    "))
        L.append("}")
        if rng.random() < 0.5:
            # the mock API of a module is a name *inside* that module: the enclosing scope is free to use the same name
            L.append(rng.choice(["#[allow(dead_code)] pub struct SubjMock;", "#[allow(dead_code, non_snake_case)] pub mod SubjMock { pub fn unrelated() {} }",
                                 "#[allow(unused_imports)] pub use self::subject_mod::SubjMock as SubjMockHere; #[allow(dead_code)] pub enum SubjMock {}"]))
        api = lambda f: "subject_mod::SubjMock::%s" % f.name
        prefix = "subject_mod::"
    D = ["pub fn run() {"]
    calls = []
    # one mock object holding a clause for every method (own answer, own distinct argument values);
    # each method is then called once: it has to reach its own clause
    clauses = []
    base = 1
    argsets = []
    for gi, g in enumerate(fns):
        _s2, e_g, d_g = g.call_args(base, "c%d" % gi)
        argsets.append((base, e_g))
        base += len(g.params) + 1
        ans = '::std::string::String::from("ANSWER_%d")' % gi if g.ret == "owned" else "()"
        clauses.append("::unimock::MockFn::each_call(%s, ::unimock::matching!(%s)).returns(%s)" % (api(g), ", ".join(pattern_of(x) for x in e_g), ans))
    D.append('    ::vrt::phase("mock");')
    D.append("    { let u = ::unimock::Unimock::new(%s);" % (clauses[0] if len(clauses) == 1 else "(" + ", ".join(clauses) + ")"))
    order = list(range(len(fns)))
    rng.shuffle(order)
    for fi in order:
        f = fns[fi]
        wrap = f.wrap_call
        _s, e_m, d_m = f.call_args(argsets[fi][0], "%dm" % fi)
        D.append('      let r = %s; ::vrt::kv("r%d", ::std::format!("{:?}", r));' % (wrap("u.%s(%s)" % (f.name, ", ".join(e_m))), fi))
    D.append("    }")
    for fi, f in enumerate(fns):
        wrap = f.wrap_call
        b0 = argsets[fi][0]
        _s, e_p, d_p = f.call_args(b0, "%dp" % fi)
        _s, e_i, d_i = f.call_args(b0, "%di" % fi)
        want = '"ANSWER_%d"' % fi if f.ret == "owned" else "()"
        D.append('    ::vrt::phase("partial:%d");' % fi)
        D.append("    { let u = ::unimock::Unimock::new_partial(());")
        D.append('      ::vrt::kv("u_addr", ::vrt::addr(&u)); ::vrt::kv("u_tn", ::vrt::tn(&u));')
        D.append("      let r = %s; ::vrt::result(&r); }" % wrap("u.%s(%s)" % (f.name, ", ".join(e_p))))
        D.append('    ::vrt::phase("impl:%d");' % fi)
        D.append('    { let app = ::entrait::Impl::new(App { tag: 1, name: "n" });')
        D.append("      let r = %s; ::vrt::result(&r); }" % wrap("app.%s(%s)" % (f.name, ", ".join(e_i))))
        calls.append({"i": fi, "fn": f.fn_id, "args": d_p, "want_mock": want, "deps_usable": f.has_deps() and f.deps_name != "_",
                      "nested": [c[1] for c in f.calls], "async": f.is_async, "no_deps": f.deps_kind == "no_deps"})
    D.append("}")
    sigs = [f.sig_text().replace(f.name, "") for f in fns]
    nt = any(any(a.type_text() == b.type_text() for a, b in zip(f.params, f.params[1:])) for f in fns) or \
        (mode == "mod" and len(set(sigs)) < len(sigs)) or (no_deps and len(fns[0].params) >= 2)
    meta = {"family": "fnmod", "mode": mode, "calls": calls, "nontrivial": nt, "opts": opts, "macro": macro,
            "methods": [{"name": f.name, "kind": ("no_deps" if f.deps_kind == "no_deps" else "generic"), "arity": len(f.params)} for f in fns],
            "sigs": [f.sig_text() for f in fns]}
    return Case(cid, "\n".join(L + D) + "\n", meta=meta)


def build_unmockable(cid, rng):
    kind = rng.choice(["concrete", "trait"])
    macro = rng.choice(["entrait", "entrait_export"])
    if kind == "concrete":
        src = """pub struct Cfg { pub x: i32 }
#[::entrait::%s(pub Subj, mock_api = SubjMock)] /*@inv*/
fn subj(deps: &Cfg, a: i32, b: i32) -> i32 { ::vrt::enter("%s::subj", ::vrt::tn(deps), ::vrt::addr(deps), &[&a as &dyn ::core::fmt::Debug, &b as &dyn ::core::fmt::Debug]); a - b }
pub fn run() {
    ::vrt::phase("mock");
    { let u = ::unimock::Unimock::new(::unimock::MockFn::each_call(SubjMock, ::unimock::matching!(7, 3)).returns(99)); let r = u.subj(7, 3); ::vrt::result(&r); }
    ::vrt::phase("real");
    { let c = Cfg { x: 1 }; let r = c.subj(7, 3); ::vrt::result(&r); }
    ::vrt::phase("partial");
    { let u = ::unimock::Unimock::new_partial(()); let r = u.subj(7, 3); ::vrt::result(&r); }
}
""" % (macro, cid)
        methods = [{"name": "subj", "kind": "concrete", "arity": 2}]
    else:
        src = """#[::entrait::%s(mock_api = SubjMock)] /*@inv*/
pub trait Subj { fn m0(&self, a: i32, b: i32) -> i32; fn m1(&self, a: i32, b: i32) -> i32; }
pub struct P; impl Subj for P { fn m0(&self, a: i32, b: i32) -> i32 { a - b } fn m1(&self, a: i32, b: i32) -> i32 { b - a } }
pub fn run() {
    ::vrt::phase("mock");
    { let u = ::unimock::Unimock::new((::unimock::MockFn::each_call(SubjMock::m0, ::unimock::matching!(7, 3)).returns(99),
                                        ::unimock::MockFn::each_call(SubjMock::m1, ::unimock::matching!(7, 3)).returns(98)));
      let r = (u.m1(7, 3), u.m0(7, 3)); ::vrt::result(&r); }
    ::vrt::phase("real");
    { let p = ::entrait::Impl::new(P); let r = (p.m0(7, 3), p.m1(7, 3)); ::vrt::result(&r); }
    ::vrt::phase("partial");
    { let u = ::unimock::Unimock::new_partial(()); let r = u.m0(7, 3); ::vrt::result(&r); }
}
""" % macro
        methods = None
    return Case(cid, src, meta={"family": "unmockable", "kind": kind, "nontrivial": True, "methods": methods, "macro": macro})


def hygiene_case(cid, rng):
    """A mockable fn stamped out by macro_rules!: the attribute and some parameter names are written in the macro body,
    other names come from the invocation (mixed hygiene); no_deps fns name their parameters in `unmock_with`."""
    no_deps = rng.random() < 0.7
    n = rng.randint(2, 4)
    origins = [rng.choice(["caller", "macro"]) for _ in range(n)]
    if len(set(origins)) == 1:
        origins[0] = "caller" if origins[0] == "macro" else "macro"
    used = {"caller": set(), "macro": set()}
    names = []
    for o in origins:
        nm = rng.choice([x for x in ["a", "b", "inner", "c", "d"] if x not in used[o]][:3])
        used[o].add(nm)
        names.append(nm)
    matcher, args, ps = ["$f:ident"], ["subj"], []
    for i, (o, nm) in enumerate(zip(origins, names)):
        if o == "caller":
            matcher.append("$p%d:ident" % i)
            args.append(nm)
            ps.append("$p%d" % i)
        else:
            ps.append(nm)
    fid = "%s::subj" % cid
    deps_decl = "" if no_deps else "deps: &impl ::core::marker::Sized, "
    dep_log = '"", 0' if no_deps else "::vrt::tn(deps), ::vrt::addr(deps)"
    L = [APP_DEF, "macro_rules! make {", "    (%s) => {" % ", ".join(matcher),
         "        #[::entrait::entrait(pub Subj, mock_api = SubjMock%s)] /*@inv*/" % (", no_deps" if no_deps else ""),
         "        pub fn $f(%s%s) -> ::std::string::String { ::vrt::enter(\"%s\", %s, &[%s]); ::std::format!(\"%s\", %s) }" % (
             deps_decl, ", ".join("%s: i32" % x for x in ps), fid, dep_log, ", ".join("&%s as &dyn ::core::fmt::Debug" % x for x in ps),
             "|".join("{}" for _ in ps), ", ".join(ps)),
         "    };", "}", "make!(%s);" % ", ".join(args)]
    vals = ", ".join("%di32" % (101 + i) for i in range(n))
    D = ["pub fn run() {",
         '    ::vrt::phase("mock");',
         '    { let u = ::unimock::Unimock::new(::unimock::MockFn::each_call(SubjMock, ::unimock::matching!(%s)).returns(::std::string::String::from("ANSWER_0")));' % vals,
         '      let r = u.subj(%s); ::vrt::kv("r0", ::std::format!("{:?}", r)); }' % vals,
         '    ::vrt::phase("partial:0");',
         '    { let u = ::unimock::Unimock::new_partial(()); ::vrt::kv("u_addr", ::vrt::addr(&u)); ::vrt::kv("u_tn", ::vrt::tn(&u));',
         "      let r = u.subj(%s); ::vrt::result(&r); }" % vals,
         '    ::vrt::phase("impl:0");',
         '    { let app = ::entrait::Impl::new(App { tag: 1, name: "n" }); let r = app.subj(%s); ::vrt::result(&r); }' % vals, "}"]
    meta = {"family": "fnmod", "mode": "macro_rules", "nontrivial": True, "opts": [], "macro": "entrait",
            "calls": [{"i": 0, "fn": fid, "args": [str(101 + i) for i in range(n)], "want_mock": '"ANSWER_0"', "deps_usable": not no_deps,
                       "nested": [], "async": False, "no_deps": no_deps}],
            "methods": None, "sigs": ["macro_rules subj names=%s origins=%s no_deps=%s" % (names, origins, no_deps)]}
    return Case(cid, "\n".join(L + D) + "\n", meta=meta)


def generic_ret_only_case(cid, rng, in_mod, is_async):
    fid = "%s::subj" % cid
    # ... or in no part of the signature at all (the caller names it: `Subj::<i64>::subj(&app)`)
    nowhere = rng.random() < 0.5
    rty, rexpr = ("::std::string::String", '::std::format!("{:?}", T::default())') if nowhere else ("T", "T::default()")
    # ... and the fn may have no dependency at all (round 19): the `unmock_with` entry of a no_deps fn calls `subj::<T>()` itself
    no_deps = (not in_mod) and rng.random() < 0.4
    body = '::vrt::enter("%s", %s, &[]); %s%s' % (fid, '"", 0' if no_deps else "::vrt::tn(deps), ::vrt::addr(deps)", "::vrt::yield_once().await; " if is_async else "", rexpr)
    sig = "pub %sfn subj<%sT: ::core::default::Default + ::core::fmt::Debug + ::core::marker::Send + 'static>(%s) -> %s { %s }" % (
        "async " if is_async else "", "" if no_deps else "D, ", "" if no_deps else "deps: &D", rty, body)
    L = [APP_DEF]
    macro = rng.choice(["entrait", "entrait_export"])
    if in_mod:
        L += ["#[::entrait::%s(pub Subj, mock_api = SubjMock)] /*@inv*/" % macro, "pub mod subject_mod { use super::*;", "    " + sig, "}"]
        api = "subject_mod::SubjMock::subj"
    else:
        L += ["#[::entrait::%s(pub Subj, mock_api = SubjMock%s)] /*@inv*/" % (macro, ", no_deps" if no_deps else ""), sig]
        api = "SubjMock"
    w = (lambda c: "::vrt::block_on(%s)" % c) if is_async else (lambda c: c)
    call = (lambda recv: "Subj::<i64>::subj(&%s)" % recv) if nowhere else (lambda recv: "%s.subj()" % recv)
    ann = "" if nowhere else ": i64"
    answer, want = ('::std::string::String::from("ANSWER_0")', '"ANSWER_0"') if nowhere else ("99i64", "99")
    D = ["pub fn run() {", '    ::vrt::phase("mock");',
         "    { let u = ::unimock::Unimock::new(::unimock::MockFn::each_call(%s.with_types::<i64>(), ::unimock::matching!()).returns(%s));" % (api, answer),
         '      let r%s = %s; ::vrt::kv("r0", ::std::format!("{:?}", r)); }' % (ann, w(call("u"))),
         '    ::vrt::phase("partial:0");',
         '    { let u = ::unimock::Unimock::new_partial(()); ::vrt::kv("u_addr", ::vrt::addr(&u)); ::vrt::kv("u_tn", ::vrt::tn(&u));',
         "      let r%s = %s; ::vrt::result(&r); }" % (ann, w(call("u"))),
         '    ::vrt::phase("impl:0");',
         '    { let app = ::entrait::Impl::new(App { tag: 1, name: "n" }); let r%s = %s; ::vrt::result(&r); }' % (ann, w(call("app"))), "}"]
    meta = {"family": "fnmod", "mode": "generic", "nontrivial": True, "opts": [], "macro": macro,
            "calls": [{"i": 0, "fn": fid, "args": [], "want_mock": want, "deps_usable": not no_deps, "nested": [], "async": is_async, "no_deps": no_deps}],
            "methods": [{"name": "subj", "kind": "no_deps" if no_deps else "generic", "arity": 0}], "sigs": [sig[:120]]}
    return Case(cid, "\n".join(L + D) + "\n", meta=meta)


def generic_case(cid, rng):
    """Mockable fns with a generic (non-deps) type parameter: the mock API is instantiated with `with_types`."""
    pos = rng.choice(["first", "last"])
    ret_t = rng.random() < 0.5
    in_mod = rng.random() < 0.4
    is_async = rng.random() < 0.3
    fid = "%s::subj" % cid
    ps = ["t: T", "a: i32", "b: i32"] if pos == "first" else ["a: i32", "b: i32", "t: T"]
    ret_only = rng.random() < 0.3
    if ret_only:
        # the type parameter occurs in the return type only and the fn has no parameter besides its dependency
        return generic_ret_only_case(cid, rng, in_mod, is_async)
    names = [p.split(":")[0] for p in ps]
    body = '::vrt::enter("%s", ::vrt::tn(deps), ::vrt::addr(deps), &[%s]); %s%s' % (
        fid, ", ".join("&%s as &dyn ::core::fmt::Debug" % n for n in names), "::vrt::yield_once().await; " if is_async else "",
        "t" if ret_t else '::std::format!("{:?}|{}|{}", t, a, b)')
    sig = "pub %sfn subj<D, T: ::core::fmt::Debug + ::core::marker::Send + 'static>(deps: &D, %s) -> %s { %s }" % (
        "async " if is_async else "", ", ".join(ps), "T" if ret_t else "::std::string::String", body)
    L = [APP_DEF]
    macro = rng.choice(["entrait", "entrait_export"])
    if in_mod:
        L += ["#[::entrait::%s(pub Subj, mock_api = SubjMock)] /*@inv*/" % macro, "pub mod subject_mod { use super::*;", "    " + sig, "}"]
        api = "subject_mod::SubjMock::subj"
    else:
        L += ["#[::entrait::%s(pub Subj, mock_api = SubjMock)] /*@inv*/" % macro, sig]
        api = "SubjMock"
    vals = ["7i64", "101i32", "102i32"] if pos == "first" else ["101i32", "102i32", "7i64"]
    w = (lambda c: "::vrt::block_on(%s)" % c) if is_async else (lambda c: c)
    answer = "99i64" if ret_t else '::std::string::String::from("ANSWER_0")'
    want = "99" if ret_t else '"ANSWER_0"'
    D = ["pub fn run() {", '    ::vrt::phase("mock");',
         "    { let u = ::unimock::Unimock::new(::unimock::MockFn::each_call(%s.with_types::<i64>(), ::unimock::matching!(%s)).returns(%s));" % (api, ", ".join(vals), answer),
         '      let r = %s; ::vrt::kv("r0", ::std::format!("{:?}", r)); }' % w("u.subj(%s)" % ", ".join(vals)),
         '    ::vrt::phase("partial:0");',
         '    { let u = ::unimock::Unimock::new_partial(()); ::vrt::kv("u_addr", ::vrt::addr(&u)); ::vrt::kv("u_tn", ::vrt::tn(&u));',
         "      let r = %s; ::vrt::result(&r); }" % w("u.subj(%s)" % ", ".join(vals)),
         '    ::vrt::phase("impl:0");',
         '    { let app = ::entrait::Impl::new(App { tag: 1, name: "n" }); let r = %s; ::vrt::result(&r); }' % w("app.subj(%s)" % ", ".join(vals)), "}"]
    dbg = [v.rstrip("i3264") if False else v[:-3] for v in vals]
    meta = {"family": "fnmod", "mode": "generic", "nontrivial": True, "opts": [], "macro": macro,
            "calls": [{"i": 0, "fn": fid, "args": dbg, "want_mock": want, "deps_usable": True, "nested": [], "async": is_async, "no_deps": False}],
            "methods": [{"name": "subj", "kind": "generic", "arity": 3}], "sigs": [sig[:120]]}
    return Case(cid, "\n".join(L + D) + "\n", meta=meta)


def unmock_with_entries(rec):
    """Entries of `unmock_with = [..]` in the unimock attribute on the emitted trait, or None."""
    def find(ts):
        for i, t in enumerate(ts):
            if tok.is_i(t, "unmock_with") and i + 2 < len(ts) and tok.is_p(ts[i + 1], "=") and tok.is_g(ts[i + 2], "["):
                return ts[i + 2]["s"]
            if "g" in t:
                r = find(t["s"])
                if r is not None:
                    return r
        return None
    g = find(rec["output"])
    if g is None:
        return None
    out = []
    for e in tok.split_commas(g):
        # explicit generic arguments of the fn (`name::<_, T>`, since the repair of the inference defect) are not part of the shape
        if len(e) >= 5 and "i" in e[0] and tok.is_p(e[1], ":") and tok.is_p(e[2], ":") and tok.is_p(e[3], "<"):
            k = next((i for i in range(len(e) - 1, 3, -1) if tok.is_p(e[i], ">")), None)
            if k is not None:
                e = [e[0]] + e[k + 1:]
        if len(e) == 1 and tok.is_i(e[0], "_"):
            out.append(("_", None))
        elif len(e) == 1 and "i" in e[0]:
            out.append((e[0]["i"], None))
        elif len(e) == 2 and "i" in e[0] and tok.is_g(e[1], "("):
            out.append((e[0]["i"], [tok.render(x) for x in tok.split_commas(e[1]["s"])]))
        else:
            out.append(("?", tok.render(e)))
    return out


def check_case(c, rep):
    m = c.meta
    if c.removed is not None:
        d = (c.removed["diags"] or [{}])[0]
        rep.violation(c.id, "compile:%s:%s" % (d.get("code"), d.get("message", "")[:70]),
                      "does not compile (is the mock API reachable under the mock_api name?): %s" % d.get("message", "")[:300])
        return
    rec = c.runrec.get("test")
    if not rec:
        raise core.Inconclusive("no run record for %s" % c.id)
    ph = {p["label"]: p for p in rec["phases"]}
    if m["family"] == "unmockable":
        if ph.get("mock", {}).get("result") not in ("99", "(98, 99)"):
            rep.violation(c.id, "mock-answer", "mocked call returned %s" % ph.get("mock", {}).get("result"))
        if ph.get("real", {}).get("result") not in ("4", "(4, -4)"):
            raise core.Inconclusive("harness: real path of %s off: %s" % (c.id, ph.get("real")))
        pn = rec.get("panic") or ""
        if "cannot be unmocked" not in pn or ph.get("partial", {}).get("result") is not None:
            rep.violation(c.id, "unmockable-was-unmocked", "a %s was un-mocked on a partial mock (panic: %s, result: %s)" % (
                m["kind"], pn[:120], ph.get("partial", {}).get("result")))
        else:
            rep.bump("not_unmockable_confirmed")
    else:
        if rec.get("crash") or rec.get("panic"):
            rep.violation(c.id, "panic:" + (rec.get("panic") or "crash")[:50].replace(c.id, "CID"),
                          "case panicked (a permuted argument list fails to match): %s" % (rec.get("panic") or rec.get("crash"))[:400])
            return
        for call in m["calls"]:
            i = call["i"]
            mk, pa, im = ph["mock"], ph["partial:%d" % i], ph["impl:%d" % i]
            if mk["kv"].get("r%d" % i) != call["want_mock"] or mk["events"]:
                rep.violation(c.id, "mock-answer", "mocked call %d returned %s (events %s), configured answer %s" % (i, mk["kv"].get("r%d" % i), [e["fn"] for e in mk["events"]], call["want_mock"]))
                continue
            evs = pa["events"]
            bad = None
            if not evs or evs[0]["fn"] != call["fn"] or sum(1 for e in evs if e["fn"] == call["fn"]) != 1:
                bad = "original fn ran %d times (%s)" % (sum(1 for e in evs if e["fn"] == call["fn"]), [e["fn"] for e in evs])
            elif call["deps_usable"] and (evs[0]["tn"] != pa["kv"]["u_tn"] or str(evs[0]["addr"]) != pa["kv"]["u_addr"]):
                bad = "dependency is (%s, %s), expected the mock object (%s, %s)" % (evs[0]["tn"], evs[0]["addr"], pa["kv"]["u_tn"], pa["kv"]["u_addr"])
            elif evs[0]["args"] != call["args"]:
                bad = "arguments %s, expected %s" % (evs[0]["args"], call["args"])
            elif [e["fn"] for e in evs[1:]] != call["nested"]:
                bad = "nested calls %s, expected %s" % ([e["fn"] for e in evs[1:]], call["nested"])
            elif pa["result"] != im["result"]:
                bad = "result %s, Impl<T> path gives %s" % (pa["result"], im["result"])
            if bad:
                rep.violation(c.id, "unmock:" + bad.split(" ")[0] + bad.split(" ")[1], "partial mock, call %d: %s" % (i, bad), {"partial": pa, "impl": im})
                continue
            rep.bump("mocked_calls_checked")
            rep.bump("unmocked_calls_checked")
            rep.bump("trace_events", len(evs) + len(im["events"]))
    # (R) unmock_with shape
    recs = [r for r in c.records_by.get("test", c.records) if r["status"] == "end" and r["line"] == c.marks["inv"]]
    if recs and m.get("methods"):
        ent = unmock_with_entries(recs[0])
        if ent is None:
            rep.violation(c.id, "unmock_with-missing", "no unmock_with list on the generated trait")
        else:
            want = []
            for mm in m["methods"]:
                if mm["kind"] == "generic":
                    want.append((mm["name"], None))
                elif mm["kind"] == "concrete":
                    want.append(("_", None))
                else:
                    want.append((mm["name"], "args"))
            shape = [(n, "args" if a is not None else None) for n, a in ent]
            if shape != want or any(a is not None and len(a) != mm["arity"] for (n, a), mm in zip(ent, m["methods"])):
                rep.violation(c.id, "unmock_with-shape", "unmock_with = %s, expected one entry per method in order: %s" % (ent, want))
            else:
                rep.bump("unmock_with_lists_checked")
    elif recs and m["family"] == "unmockable":
        if unmock_with_entries(recs[0]) is not None:
            rep.violation(c.id, "unmock_with-on-trait", "entraited trait got an unmock_with list")
    rep.bucket("families", m["family"] + ":" + m.get("mode", m.get("kind", "")))
    rep.bucket("macro", m["macro"])
    rep.count(c.sig(), m["nontrivial"])
    rep.sample({"case": c.id, "sigs": m.get("sigs"), "opts": m.get("opts"), "phases": rec["phases"][:3], "panic": rec.get("panic")}, limit=3)


def run(tier, seed):
    rep = core.Report(PROP, tier, seed)
    rep.rule = ("mockable fn/mod cases with the unimock feature in test builds (gated and exported): arity 0-5 with same-typed "
                "neighbours, destructured / wildcard params, sync/async, generic-deps and no_deps fns, modules with 2-4 (often "
                "same-signature) fns, mockable helper deps that the bodies call; every method gets a clause under the mock_api path with "
                "its own answer and distinct values per parameter; concrete-deps fns and entraited traits on a partial mock. "
                "non-trivial = two same-typed adjacent params, same-signature module fns, or no_deps with >= 2 params")
    n = 300 if tier == "quick" else 3000
    rng = core.rng_for(PROP, seed)
    cases = []
    for i in range(n):
        r = rng.random()
        if r < 0.1:
            cases.append(hygiene_case("c11h_%04d" % i, rng))
        elif r < 0.2:
            cases.append(generic_case("c11g_%04d" % i, rng))
        elif r < 0.85:
            cases.append(build_fnmod("c11_%04d" % i, rng))
        else:
            cases.append(build_unmockable("c11u_%04d" % i, rng))
    st = selftest.case("selftest_c11")
    ws = core.Workspace(PROP, "on", unimock=True, deps=("unimock",))
    ws.extend(cases + [st])
    ws.write()
    b = ws.build(test=True, build_tag="test")
    ws.run(b["exes"], tag="test")
    selftest.verify(st, "test")
    for c in cases:
        check_case(c, rep)
    core.floors(rep, mocked_calls_checked=n // 2, unmocked_calls_checked=n // 2, not_unmockable_confirmed=n // 20, unmock_with_lists_checked=n // 2)
    return rep.finish({c.id: c for c in cases})
