"""C19 - generated code is self-contained: no imports, no std, no name capture.
Benign / hostile twins of the fn, mod, trait and impl-block generators: the hostile twin lives in
a scope that defines items named like everything the macro refers to; it must compile and satisfy
the same run-time oracles, and its recorded expansion must reach every such name through a `::`
rooted path. A #![no_std] library crate hosts further cases driven from a std binary."""
import re
from .. import core, tok, selftest
from ..core import Case
from ..gen.fncases import FnCaseBuilder
from . import c01, c06, c07

PROP = "C19"

HOSTILE = """
#[allow(dead_code)] pub struct Impl;
#[allow(dead_code)] pub mod core { pub mod marker {} pub mod future {} pub mod convert {} pub mod borrow {} }
#[allow(dead_code)] pub mod entrait { pub struct Impl; }
#[allow(dead_code)] pub mod std {}
#[allow(dead_code)] pub mod implementation {}
#[allow(dead_code)] pub mod unimock {}
#[allow(dead_code)] pub mod mockall {}
#[allow(dead_code)] pub mod __unimock {}
#[allow(dead_code)] pub trait Future {}
#[allow(dead_code)] pub trait Send {}
#[allow(dead_code)] pub trait Sync {}
#[allow(dead_code)] pub trait Sized {}
#[allow(dead_code)] pub trait AsRef {}
#[allow(dead_code)] pub trait Borrow {}
#[allow(dead_code)] pub trait Unimock {}
#[allow(dead_code)] pub trait Output {}
#[allow(dead_code)] pub struct Box;
#[allow(dead_code)] pub struct Pin;
#[allow(dead_code)] pub struct Option;
#[allow(dead_code)] pub struct Some;
#[allow(dead_code)] pub struct Target;
#[allow(dead_code)] pub fn drop() {}
#[allow(dead_code)] pub trait HostileAssoc { fn m0() {} fn m1() {} fn m2() {} fn m3() {} fn m4() {} fn m5() {} fn m6() {} fn m7() {} fn subj() {} }
impl<HostileT: ?::core::marker::Sized> HostileAssoc for HostileT {}
#[allow(unused_imports)] use ::core::borrow::{Borrow as _, BorrowMut as _};
#[allow(unused_imports)] use ::core::ops::{Deref as _, DerefMut as _};
#[allow(unused_imports)] use ::core::convert::{AsMut as _, Into as _, From as _};
"""
# `Target` clashes with the user-chosen names of the C07 generator, so it is only used for fn/mod/leaf-trait twins
WATCH = {"Impl", "core", "entrait", "std", "implementation", "unimock", "mockall", "__unimock", "Future", "Send", "Sync", "Sized",
         "AsRef", "Borrow", "Unimock", "Box", "Pin", "Option", "Some", "None", "Result", "Ok", "Err", "Default", "Clone", "Copy",
         "Vec", "String", "drop", "marker", "future", "convert", "borrow"}


KEYWORDS_BEFORE_PATH = {"as", "dyn", "impl", "for", "in", "where", "mut", "const", "return", "else", "unsafe", "move", "ref", "use", "let", "match", "if", "while", "await", "break", "static"}


def std_rooted(ts):
    """Renderings of paths that start with `::std` / `::alloc` anywhere in the token tree."""
    out = []

    def go(ts):
        for i, t in enumerate(ts):
            if "g" in t:
                go(t["s"])
            elif t.get("i") in ("std", "alloc") and i >= 2 and tok.is_p(ts[i - 1], ":") and tok.is_p(ts[i - 2], ":") \
                    and not (i >= 3 and "i" in ts[i - 3] and ts[i - 3]["i"] not in KEYWORDS_BEFORE_PATH) and i + 1 < len(ts) and tok.is_p(ts[i + 1], ":"):
                # the path itself: `:: seg :: seg ..`
                j, segs = i, []
                while j < len(ts) and "i" in ts[j]:
                    segs.append(ts[j]["i"])
                    if j + 2 < len(ts) and tok.is_p(ts[j + 1], ":") and tok.is_p(ts[j + 2], ":") and j + 3 < len(ts) and "i" in ts[j + 3]:
                        j += 3
                    else:
                        break
                out.append("::" + "::".join(segs))
    go(ts)
    return out


def bare_watch_names(ts):
    """Watch-listed identifiers that are resolved relative to the invoking scope (leftmost path segment, no leading `::`)."""
    bad = []

    def go(ts):
        n = len(ts)
        for i, t in enumerate(ts):
            if "g" in t:
                go(t["s"])
                continue
            if "i" not in t or t["i"] not in WATCH:
                continue
            # preceded by `::` -> not the leftmost segment (or rooted)
            if i >= 2 and tok.is_p(ts[i - 1], ":") and tok.is_p(ts[i - 2], ":") and ts[i - 2].get("j"):
                continue
            # method / field position: `.name`
            if i >= 1 and tok.is_p(ts[i - 1], "."):
                continue
            # `name = value` inside attribute argument lists, `Output = T` inside generic args
            if i + 1 < n and tok.is_p(ts[i + 1], "=") and not ts[i + 1].get("j"):
                continue
            # lifetime `'static` etc.
            if i >= 1 and tok.is_p(ts[i - 1], "'"):
                continue
            bad.append((t["i"], tok.render(ts[max(0, i - 4):i + 5])))
    go(ts)
    return bad


def hostile_twin(c, with_target=True):
    h = HOSTILE if with_target else HOSTILE.replace("#[allow(dead_code)] pub struct Target;\n", "")
    if "async_trait" in c.src:
        # async_trait's own expansion refers to `Box` unhygienically; that is not entrait's code
        for name in ("Box", "Pin", "Option", "Some"):
            h = h.replace("#[allow(dead_code)] pub struct %s;\n" % name, "")
    cid = c.id + "h"
    src = h + c.src.replace(c.id, cid)
    # modules of the fn/mod generator import the surrounding (hostile) scope through `use super::*`
    t = Case(cid, src, meta=dict(c.meta), run=c.run)
    # ground truth that mentions the case id
    t.meta = eval(repr(c.meta).replace(c.id, cid))
    t.meta["twin_of"] = c.id
    return t


def strip_ids(rec, cid):
    s = repr({"phases": [(p["label"], [(e["fn"], e["args"]) for e in p["events"]], p["result"]) for p in rec["phases"]],
              "facts": {k: v for k, v in rec["facts"].items() if "addr" not in k and "tag" not in k}})
    return re.sub(r"c19_\w+?_s\d+", "SHARD", s.replace(cid, "CID"))


NOSTD_LIB = """#![no_std]
#![allow(warnings)]
pub struct App { pub tag: u32 }
pub mod ns_fn {
    #[::entrait::entrait(pub Foo)]
    pub fn foo<D>(deps: &D, a: i32, b: i32) -> (u32, usize, i32, i32) { (1, deps as *const D as *const () as usize, a, b) }
    #[::entrait::entrait(pub Bar, no_deps)]
    pub fn bar(a: i32, b: i32) -> (u32, i32, i32) { (2, a, b) }
    #[::entrait::entrait(pub Baz)]
    pub async fn baz(deps: &impl Foo, a: i32, b: i32) -> (u32, usize, i32, i32) { let r = deps.foo(a, b); (3, r.1, r.2, r.3) }
    #[::entrait::entrait(pub Conc)]
    pub fn conc(deps: &super::App, a: i32) -> (u32, usize, i32) { (4, deps as *const super::App as usize, a) }
    #[::entrait::entrait(pub ByVal)]
    pub fn by_val<D: ::core::marker::Copy>(deps: D, a: i32) -> (u32, i32) { (5, a) }
}
#[::entrait::entrait(pub ModTr)]
pub mod ns_mod {
    pub fn m0<D>(deps: &D, a: i32, b: i32) -> (u32, usize, i32, i32) { (10, deps as *const D as *const () as usize, a, b) }
    pub async fn m1<D>(deps: &D, a: i32, b: i32) -> (u32, usize, i32, i32) { (11, deps as *const D as *const () as usize, a, b) }
}
pub mod ns_trait {
    #[::entrait::entrait] pub trait Leaf { fn leaf(&self, a: i32, b: i32) -> (u32, usize, i32, i32); async fn aleaf(&self, a: i32) -> (u32, i32); }
    pub struct Prov;
    impl Leaf for Prov {
        fn leaf(&self, a: i32, b: i32) -> (u32, usize, i32, i32) { (20, self as *const Prov as usize, a, b) }
        async fn aleaf(&self, a: i32) -> (u32, i32) { (21, a) }
    }
    #[::entrait::entrait(delegate_by = ref)] pub trait DynLeaf: 'static { fn dleaf(&self, a: i32) -> (u32, i32); }
    impl DynLeaf for Prov { fn dleaf(&self, a: i32) -> (u32, i32) { (22, a) } }
    pub struct RefApp(pub Prov);
    impl ::core::convert::AsRef<dyn DynLeaf> for RefApp { fn as_ref(&self) -> &(dyn DynLeaf + 'static) { &self.0 } }
    #[::entrait::entrait(delegate_by = Borrow)] pub trait BorLeaf: 'static { fn bleaf(&self, a: i32) -> (u32, i32); }
    impl BorLeaf for Prov { fn bleaf(&self, a: i32) -> (u32, i32) { (23, a) } }
    impl ::core::borrow::Borrow<dyn BorLeaf> for RefApp { fn borrow(&self) -> &(dyn BorLeaf + 'static) { &self.0 } }
}
pub mod ns_inv {
    #[::entrait::entrait(pub InvImpl, delegate_by = DelegateInv)] pub trait Inv { fn inv(&self, a: i32, b: i32) -> (u32, usize, i32, i32); async fn ainv(&self, a: i32) -> (u32, i32); }
    pub struct T1;
    #[::entrait::entrait] impl InvImpl for T1 {
        pub fn inv<D>(deps: &D, a: i32, b: i32) -> (u32, usize, i32, i32) { (30, deps as *const D as *const () as usize, a, b) }
        pub async fn ainv<D>(deps: &D, a: i32) -> (u32, i32) { (31, a) }
    }
    impl DelegateInv<Self> for super::App { type Target = T1; }
    #[::entrait::entrait(DynImpl, delegate_by = ref)] pub trait DynInv { fn dinv(&self, a: i32) -> (u32, usize, i32); }
    pub struct T2;
    #[::entrait::entrait(ref)] impl DynImpl for T2 { pub fn dinv<D>(deps: &D, a: i32) -> (u32, usize, i32) { (32, deps as *const D as *const () as usize, a) } }
    pub struct DynApp(pub T2);
    impl ::core::convert::AsRef<dyn DynImpl<DynApp>> for DynApp { fn as_ref(&self) -> &(dyn DynImpl<DynApp> + 'static) { &self.0 } }
    #[::entrait::entrait(BorImpl, delegate_by = Borrow)] pub trait BorInv { fn binv(&self, a: i32) -> (u32, usize, i32); }
    pub struct T3;
    #[::entrait::entrait(ref)] impl BorImpl for T3 { pub fn binv<D>(deps: &D, a: i32) -> (u32, usize, i32) { (33, deps as *const D as *const () as usize, a) } }
    pub struct BorApp(pub T3);
    impl ::core::borrow::Borrow<dyn BorImpl<BorApp>> for BorApp { fn borrow(&self) -> &(dyn BorImpl<BorApp> + 'static) { &self.0 } }
}
"""

NOSTD_DRIVER = """
use ::c19nostd::ns_fn::{Foo, Bar, Baz, Conc, ByVal};
use ::c19nostd::ModTr;
use ::c19nostd::ns_trait::{Leaf, DynLeaf, BorLeaf};
use ::c19nostd::ns_inv::{Inv, DynInv, BorInv};
pub fn run() {
    let app = ::entrait::Impl::new(::c19nostd::App { tag: 1 });
    let a = ::vrt::addr(&app) as usize;
    let mut k = 0;
    macro_rules! same { ($name:expr, $x:expr, $y:expr) => {{ let (x, y) = ($x, $y); ::vrt::fact($name, x == y); ::vrt::fact(concat!($name, ":value"), ::std::format!("{:?}", y)); }}; }
    same!("foo", ::c19nostd::ns_fn::foo(&app, 1, 2), app.foo(1, 2));
    same!("foo_addr", (1u32, a, 1, 2), app.foo(1, 2));
    same!("bar", ::c19nostd::ns_fn::bar(3, 4), app.bar(3, 4));
    same!("baz", ::vrt::block_on(::c19nostd::ns_fn::baz(&app, 5, 6)), ::vrt::block_on(app.baz(5, 6)));
    same!("conc", ::c19nostd::ns_fn::conc(&*app, 7), app.conc(7));
    let u = ::entrait::Impl::new(());
    same!("by_val", ::c19nostd::ns_fn::by_val(u, 8), u.by_val(8));
    same!("m0", ::c19nostd::ns_mod::m0(&app, 1, 2), app.m0(1, 2));
    same!("m1", ::vrt::block_on(::c19nostd::ns_mod::m1(&app, 1, 2)), ::vrt::block_on(app.m1(1, 2)));
    let p = ::entrait::Impl::new(::c19nostd::ns_trait::Prov);
    same!("leaf", ::c19nostd::ns_trait::Leaf::leaf(&*p, 1, 2), p.leaf(1, 2));
    same!("aleaf", ::vrt::block_on(::c19nostd::ns_trait::Leaf::aleaf(&*p, 1)), ::vrt::block_on(p.aleaf(1)));
    let r = ::entrait::Impl::new(::c19nostd::ns_trait::RefApp(::c19nostd::ns_trait::Prov));
    same!("dleaf", (22u32, 9), r.dleaf(9));
    same!("bleaf", (23u32, 9), r.bleaf(9));
    same!("inv", ::c19nostd::ns_inv::T1::inv(&app, 1, 2), app.inv(1, 2));
    same!("ainv", ::vrt::block_on(::c19nostd::ns_inv::T1::ainv(&app, 1)), ::vrt::block_on(app.ainv(1)));
    let d = ::entrait::Impl::new(::c19nostd::ns_inv::DynApp(::c19nostd::ns_inv::T2));
    same!("dinv", ::c19nostd::ns_inv::T2::dinv(&d, 4), d.dinv(4));
    let b = ::entrait::Impl::new(::c19nostd::ns_inv::BorApp(::c19nostd::ns_inv::T3));
    same!("binv", ::c19nostd::ns_inv::T3::binv(&b, 4), b.binv(4));
}
"""

# A scope without the standard prelude: every name the generated code needs has to come through an absolute path
# (method-call syntax on `AsRef` / `Borrow` needs those traits in scope).
NO_PRELUDE = """#![no_implicit_prelude]
pub struct App { pub k: i32 }
#[::entrait::entrait(pub FnTr)] /*@inv*/
fn free<D>(deps: &D, a: i32) -> i32 { a + 1 }
#[::entrait::entrait(pub ModTr)]
pub mod m { pub fn in_mod<D>(deps: &D, a: i32) -> i32 { a + 2 } }
#[::entrait::entrait] pub trait Leaf { fn leaf(&self, a: i32) -> i32; fn as_ref(&self) -> i32; }
impl Leaf for App { fn leaf(&self, a: i32) -> i32 { a + self.k } fn as_ref(&self) -> i32 { 40 } }
#[::entrait::entrait(delegate_by = ref)] pub trait DynLeaf: 'static { fn dleaf(&self, a: i32) -> i32; fn borrow(&self) -> i32; }
impl DynLeaf for App { fn dleaf(&self, a: i32) -> i32 { a + 4 } fn borrow(&self) -> i32 { 41 } }
pub struct RefApp(pub App);
impl ::core::convert::AsRef<dyn DynLeaf> for RefApp { fn as_ref(&self) -> &(dyn DynLeaf + 'static) { &self.0 } }
#[::entrait::entrait(delegate_by = Borrow)] pub trait BorLeaf: 'static { fn bleaf(&self, a: i32) -> i32; }
impl BorLeaf for App { fn bleaf(&self, a: i32) -> i32 { a + 5 } }
impl ::core::borrow::Borrow<dyn BorLeaf> for RefApp { fn borrow(&self) -> &(dyn BorLeaf + 'static) { &self.0 } }
pub trait Super { fn same(&self) -> i32; }
impl Super for App { fn same(&self) -> i32 { 1 } }
impl<T: Super> Super for ::entrait::Impl<T> { fn same(&self) -> i32 { Super::same(&**self) } }
#[::entrait::entrait] pub trait Sub: Super { fn same(&self) -> i32; }
impl Sub for App { fn same(&self) -> i32 { 2 } }
#[::entrait::entrait(InvImpl, delegate_by = DelegateInv)] pub trait Inv { fn inv(&self, a: i32) -> i32; }
pub struct T1;
#[::entrait::entrait] impl InvImpl for T1 { pub fn inv<D>(deps: &D, a: i32) -> i32 { a + 6 } }
impl DelegateInv<Self> for App { type Target = T1; }
// custom selector traits named like things the macro refers to: `delegate_by = <name>` generates a trait of that name
pub mod sel_asref {
    #[::entrait::entrait(InvImpl, delegate_by = AsRef)] pub trait Inv { fn inv(&self, a: i32) -> i32; }
    pub struct T; #[::entrait::entrait] impl InvImpl for T { pub fn inv<D>(deps: &D, a: i32) -> i32 { a + 10 } }
    impl AsRef<Self> for super::App { type Target = T; }
}
pub mod sel_send {
    #[::entrait::entrait(InvImpl, delegate_by = Send)] pub trait Inv { fn inv(&self, a: i32) -> i32; }
    pub struct T; #[::entrait::entrait] impl InvImpl for T { pub fn inv<D>(deps: &D, a: i32) -> i32 { a + 20 } }
    impl Send<Self> for super::App { type Target = T; }
}
pub mod sel_impl {
    #[::entrait::entrait(InvImpl, delegate_by = Impl)] pub trait Inv { fn inv(&self, a: i32) -> i32; }
    pub struct T; #[::entrait::entrait] impl InvImpl for T { pub fn inv<D>(deps: &D, a: i32) -> i32 { a + 30 } }
    impl Impl<Self> for super::App { type Target = T; }
}
// a delegation-target trait named like a type parameter a macro might pick for its own generated items (`T`)
pub mod target_t {
    #[::entrait::entrait(T, delegate_by = DelegateInv)] pub trait Inv { fn inv(&self, a: i32) -> i32; }
    pub struct Tt; #[::entrait::entrait] impl T for Tt { pub fn inv<D>(deps: &D, a: i32) -> i32 { a + 60 } }
    impl DelegateInv<Self> for super::App { type Target = Tt; }
}
pub fn run() {
    let app = ::entrait::Impl::new(App { k: 3 });
    ::vrt::phase("target_t"); let r = target_t::Inv::inv(&app, 1); ::vrt::result(&r);
    ::vrt::phase("sel_asref"); let r = sel_asref::Inv::inv(&app, 1); ::vrt::result(&r);
    ::vrt::phase("sel_send"); let r = sel_send::Inv::inv(&app, 1); ::vrt::result(&r);
    ::vrt::phase("sel_impl"); let r = sel_impl::Inv::inv(&app, 1); ::vrt::result(&r);
    ::vrt::phase("free"); let r = FnTr::free(&app, 1); ::vrt::result(&r);
    ::vrt::phase("in_mod"); let r = ModTr::in_mod(&app, 1); ::vrt::result(&r);
    ::vrt::phase("leaf"); let r = Leaf::leaf(&app, 1); ::vrt::result(&r);
    ::vrt::phase("as_ref"); let r = Leaf::as_ref(&app); ::vrt::result(&r);
    let rapp = ::entrait::Impl::new(RefApp(App { k: 0 }));
    ::vrt::phase("dleaf"); let r = DynLeaf::dleaf(&rapp, 1); ::vrt::result(&r);
    ::vrt::phase("borrow"); let r = DynLeaf::borrow(&rapp); ::vrt::result(&r);
    ::vrt::phase("bleaf"); let r = BorLeaf::bleaf(&rapp, 1); ::vrt::result(&r);
    ::vrt::phase("sub_same"); let r = Sub::same(&app); ::vrt::result(&r);
    ::vrt::phase("inv"); let r = Inv::inv(&app, 1); ::vrt::result(&r);
}
"""
NO_PRELUDE_EXPECT = ["61", "11", "21", "31", "2", "3", "4", "40", "5", "41", "6", "2", "7"]

# impl blocks for the delegation-target traits of *another crate*, named by absolute path, in a scope that has a local module named
# like that crate: the path the user wrote has to stay absolute in the generated trait impl
ABS_IMPL = """#![no_implicit_prelude]
pub mod c19nostd { pub mod ns_inv { pub struct NotTheCrate; pub trait InvImpl<T> {} pub trait DynImpl<T> {} } }
pub struct Local;
#[::entrait::entrait] /*@inv*/
impl ::c19nostd::ns_inv::InvImpl for Local {
    pub fn inv<D>(deps: &D, a: i32, b: i32) -> (u32, usize, i32, i32) { (70, 0, a, b) }
    pub async fn ainv<D>(deps: &D, a: i32) -> (u32, i32) { (71, a) }
}
pub struct LocalDyn;
#[::entrait::entrait(ref)]
impl ::c19nostd::ns_inv::DynImpl for LocalDyn { pub fn dinv<D>(deps: &D, a: i32) -> (u32, usize, i32) { (72, 0, a) } }
pub struct App2;
impl ::c19nostd::ns_inv::DelegateInv<Self> for App2 { type Target = Local; }
pub struct DynApp2(pub LocalDyn);
impl ::core::convert::AsRef<dyn ::c19nostd::ns_inv::DynImpl<DynApp2>> for DynApp2 { fn as_ref(&self) -> &(dyn ::c19nostd::ns_inv::DynImpl<DynApp2> + 'static) { &self.0 } }
pub fn run() {
    let app = ::entrait::Impl::new(App2);
    ::vrt::phase("inv"); let r = ::c19nostd::ns_inv::Inv::inv(&app, 1, 2); ::vrt::result(&r);
    ::vrt::phase("ainv"); let r = ::vrt::block_on(::c19nostd::ns_inv::Inv::ainv(&app, 5)); ::vrt::result(&r);
    let dapp = ::entrait::Impl::new(DynApp2(LocalDyn));
    ::vrt::phase("dinv"); let r = ::c19nostd::ns_inv::DynInv::dinv(&dapp, 3); ::vrt::result(&r);
}
"""
ABS_IMPL_EXPECT = ["(70, 0, 1, 2)", "(71, 5)", "(72, 0, 3)"]

MARKER_NAMED = """
%s
#[::entrait::entrait(pub Sync)] /*@inv*/
fn sync<D>(deps: &D, a: i32) -> i32 { ::vrt::enter("%s::sync", ::vrt::tn(deps), ::vrt::addr(deps), &[&a as &dyn ::core::fmt::Debug]); a }
#[::entrait::entrait(pub Send)]
async fn send(deps: &impl Sync, a: i32) -> i32 { ::vrt::enter("%s::send", ::vrt::tn(deps), ::vrt::addr(deps), &[&a as &dyn ::core::fmt::Debug]); deps.sync(a) + 1 }
#[::entrait::entrait(pub Future, no_deps)]
fn future(a: i32) -> i32 { a + 2 }
#[::entrait::entrait(delegate_by = ref)] pub trait AsRef: 'static { fn asref(&self) -> i32; }
pub fn run() {
    let app = ::entrait::Impl::new(());
    ::vrt::phase("sync"); let r = app.sync(1); ::vrt::result(&r);
    ::vrt::phase("send"); let r = ::vrt::block_on(app.send(1)); ::vrt::result(&r);
    ::vrt::phase("future"); let r = app.future(1); ::vrt::result(&r);
}
"""


def run(tier, seed):
    rep = core.Report(PROP, tier, seed)
    rep.rule = ("benign/hostile twins from the fn/mod generator (all deps forms, sync/async), the leaf-trait generator (Self/ref/Borrow, "
                "async_trait) and the impl-block generator (static/dynamic); the hostile twin adds 23 local items (one a blanket-implemented trait whose associated functions are named like the methods) named like every path "
                "segment the macro uses (Impl, core, entrait, std, Future, Send, Sync, Sized, AsRef, Borrow, Unimock, Box, Pin, ...); both "
                "feature settings; generated traits named Sync / Send / Future / AsRef; a #![no_std] library crate with fn, mod, leaf trait "
                "(Self/ref/Borrow), static and dynamic impl blocks driven from a std binary. non-trivial = every hostile twin / no_std case")
    n = 120 if tier == "quick" else 1200
    by = {}
    for feature in (False, True):
        label = "on" if feature else "off"
        rng = core.rng_for(PROP, seed, label)
        pairs = []
        for i in range(n):
            r = rng.random()
            cid = "c19%s_%04d" % (label, i)
            if r < 0.5:
                opts = list(rng.choice(c01.OPTION_POOL_ON if feature else c01.OPTION_POOL_OFF))
                macro = "entrait"
                prof = {}
                if c01.unimock_expanded(macro, opts, feature):
                    prof.update(c01.UNIMOCK_SAFE)
                b = FnCaseBuilder(cid, rng, profile=prof, options=opts, macro=macro, unimock_feature=feature).build()
                c = b.case()
                fam = "fnmod"
            elif r < 0.75:
                if rng.random() < 0.2:
                    # a leaf trait stamped out by macro_rules!, parameter names / the receiver handed in by the invocation
                    c = c06.hygiene_case(cid, rng)
                else:
                    c = c06.build_case(cid, rng, rng.choice(["default", "Self", "ref", "Borrow"]))
                fam = "trait"
            else:
                c = c07.build_case(cid, rng, dynamic=rng.random() < 0.5)
                fam = "implblock"
            c.meta["family"] = fam
            h = hostile_twin(c, with_target=(fam != "implblock"))
            h.meta["family"] = fam
            pairs.append((c, h))
        named = Case("c19%s_named" % label, MARKER_NAMED % ("", "c19%s_named" % label, "c19%s_named" % label), meta={"family": "named"})
        named_h = Case("c19%s_namedh" % label, MARKER_NAMED % (HOSTILE.replace("pub trait Sync {}", "").replace("pub trait Send {}", "").replace("pub trait Future {}", "").replace("pub trait AsRef {}", ""),
                                                               "c19%s_namedh" % label, "c19%s_namedh" % label), meta={"family": "named"})
        extra = {}
        drv = []
        if not feature:
            extra = {"c19nostd": {"Cargo.toml": "[package]\nname = \"c19nostd\"\nversion = \"0.0.0\"\nedition = \"2021\"\n[dependencies]\nentrait = { path = \"%s\" }\n" % core.REPO,
                                  "src/lib.rs": NOSTD_LIB},
                     # the same library as a crate that must not have `std` anywhere in its dependency graph: it brings its
                     # own panic handler (firmware style); nothing depends on it, it only has to build
                     "c19bare": {"Cargo.toml": "[package]\nname = \"c19bare\"\nversion = \"0.0.0\"\nedition = \"2021\"\n[dependencies]\nentrait = { path = \"%s\" }\n" % core.REPO,
                                 "src/lib.rs": NOSTD_LIB + "\n#[panic_handler]\nfn __c19_panic(_: &::core::panic::PanicInfo) -> ! { loop {} }\n"}}
            drv = [Case("c19_nostd_driver", NOSTD_DRIVER, meta={"family": "no_std"}), Case("c19_abs_impl", ABS_IMPL, meta={"family": "abs_impl"})]
        st = selftest.case("selftest_c19" + label)
        ws = core.Workspace(PROP, label, unimock=feature, deps=("async-trait",), extra_crates=extra)
        # pinned input of a recorded finding (K16): an item of the invoking scope named like a parameter name the macro invents
        kpin = Case("c19%s_known_generated_name" % label, """#[allow(non_camel_case_types)] pub struct arg0;
#[::entrait::entrait(pub Subj)] /*@inv*/
fn subj<D>(deps: &D, _: i32, b: i32) -> i32 { b }
pub fn run() {}
""", meta={"family": "known-pin", "pin": "generated_param_name_captured"})
        noprel = Case("c19%s_no_prelude" % label, NO_PRELUDE, meta={"family": "no_prelude"})
        allc = [x for p in pairs for x in p] + [named, named_h, noprel] + drv + [st, kpin]
        ws.extend(allc)
        ws.write()
        try:
            b = ws.build()
        except core.Inconclusive as e:
            if "c19nostd" not in str(e) and "c19bare" not in str(e):
                raise
            # the #![no_std] library itself does not compile: that is the no_std clause failing, not a harness problem.
            # Record it and judge the rest of the corpus without the library.
            rep.violation("c19_nostd_lib", "no_std:lib-does-not-compile", "the #![no_std] library crate does not compile: %s" % str(e)[:900])
            by["c19_nostd_lib"] = Case("c19_nostd_lib", NOSTD_LIB, meta={"family": "no_std"})
            drv = []
            ws = core.Workspace(PROP, label, unimock=feature, deps=("async-trait",))
            ws.extend([x for p in pairs for x in p] + [named, named_h, noprel, st, kpin])
            ws.write()
            b = ws.build()
        ws.run(b["exes"])
        selftest.verify(st)
        for c, h in pairs:
            by[c.id] = c
            by[h.id] = h
            fam = c.meta["family"]
            if c.removed is not None:
                # the benign twin has no imports and invokes the macro by absolute path: it has to compile as well
                d = (c.removed["diags"] or [{}])[0]
                rep.violation(c.id, "benign-compile:%s:%s" % (d.get("code"), re.sub(r"c19\w+", "CID", d.get("message", ""))[:70]),
                              "a scope without any imports does not compile (%s): %s" % (fam, d.get("message", "")[:300]))
                rep.count(c.sig(), True)
                continue
            if h.removed is not None:
                d = (h.removed["diags"] or [{}])[0]
                rep.violation(h.id, "hostile-compile:%s:%s" % (d.get("code"), re.sub(r"c19\w+", "CID", d.get("message", ""))[:70]),
                              "compiles in a benign scope but not in the hostile one (%s): %s" % (fam, d.get("message", "")[:300]))
                rep.count(h.sig(), True)
                continue
            before = len(rep.violations)
            {"fnmod": c01.check_case, "trait": c06.check_case, "implblock": c07.check_case}[fam](h, rep)
            rb, rh = c.runrec.get("bin"), h.runrec.get("bin")
            if rb and rh and not rb.get("panic") and not rh.get("panic"):
                if strip_ids(rb, c.id) != strip_ids(rh, h.id):
                    rep.violation(h.id, "twin-behaviour-differs", "hostile twin behaves differently from its benign twin (%s)" % fam,
                                  {"benign": rb, "hostile": rh})
                else:
                    rep.bump("twin_runs_equal")
            # (R) path-root scan of the hostile twin's expansions
            for r in h.records:
                if r["status"] != "end":
                    continue
                bad = bare_watch_names(r["output"])
                # names that the *input* already contains bare are the user's, not the macro's
                inbad = {x[0] for x in bare_watch_names(r["input"])}
                bad = [x for x in bad if x[0] not in inbad]
                rep.bump("expansions_scanned")
                # a path rooted at `::std` (or `::alloc`) in generated code cannot be resolved in a `#![no_std]` crate
                nostd = [x for x in std_rooted(r["output"]) if x not in std_rooted(r["input"])]
                if nostd:
                    rep.violation(h.id, "std-rooted-path", "generated code contains a path rooted at ::std / ::alloc (a #![no_std] crate cannot resolve it): %s" % nostd[0])
                if bad:
                    rep.violation(h.id, "bare-name:" + ",".join(sorted({x[0] for x in bad})),
                                  "generated code refers to %s through a path relative to the invoking scope: %s" % (sorted({x[0] for x in bad}), bad[0][1]))
            rep.bucket("families", fam)
        by[kpin.id] = kpin
        if kpin.removed is not None:
            d = (kpin.removed["diags"] or [{}])[0]
            rep.violation(kpin.id, "generated-name-captured:%s" % d.get("code"), "a unit struct of the invoking scope named `arg0` captures the parameter name the macro generated: %s" % d.get("message", "")[:200],
                          pinned="generated_param_name_captured")
        for ac in [x for x in drv if x.meta["family"] == "abs_impl"]:
            by[ac.id] = ac
            if ac.removed is not None:
                for d in (ac.removed["diags"] or [{}])[:3]:
                    rep.violation(ac.id, "abs-impl-path:%s:%s" % (d.get("code"), d.get("message", "")[:60]),
                                  "an impl block whose trait is named by an absolute path (`impl ::c19nostd::ns_inv::InvImpl for ..`), next to a local module "
                                  "`c19nostd`, does not compile: %s" % d.get("message", "")[:300])
            else:
                res = [p_["result"] for p_ in (ac.runrec.get("bin") or {}).get("phases", [])]
                if res != ABS_IMPL_EXPECT:
                    rep.violation(ac.id, "abs-impl-path:behaviour", "results %s, expected %s" % (res, ABS_IMPL_EXPECT))
                else:
                    rep.bump("abs_impl_path_case_ok")
            rep.count(ac.sig(), True)
        by[noprel.id] = noprel
        if noprel.removed is not None:
            for d in (noprel.removed["diags"] or [{}])[:3]:
                rep.violation(noprel.id, "no-prelude:%s:%s" % (d.get("code"), d.get("message", "")[:60]),
                              "in a scope without the prelude (and with trait methods named `as_ref` / `borrow` / like a supertrait's method) the expansion does not compile: %s" % d.get("message", "")[:300])
        else:
            res = [p_["result"] for p_ in (noprel.runrec.get("bin") or {}).get("phases", [])]
            if res != NO_PRELUDE_EXPECT:
                rep.violation(noprel.id, "no-prelude:behaviour", "results %s, expected %s" % (res, NO_PRELUDE_EXPECT))
            else:
                rep.bump("no_prelude_case_ok")
        rep.count(noprel.sig(), True)
        for c in (named, named_h):
            by[c.id] = c
            if c.removed is not None:
                d = (c.removed["diags"] or [{}])[0]
                rep.violation(c.id, "marker-named-trait:%s" % d.get("code"), "generated traits named Sync/Send/Future/AsRef do not compile: %s" % d.get("message", "")[:300])
            else:
                res = [p["result"] for p in (c.runrec.get("bin") or {}).get("phases", [])]
                if res != ["1", "2", "3"]:
                    rep.violation(c.id, "marker-named-trait:behaviour", "generated traits named like marker traits misbehave: %s" % res)
                else:
                    rep.bump("marker_named_cases_ok")
            rep.count(c.sig(), True)
        for c in [x for x in drv if x.meta["family"] == "no_std"]:
            by[c.id] = c
            if c.removed is not None:
                d = (c.removed["diags"] or [{}])[0]
                rep.violation(c.id, "no_std:%s" % d.get("code"), "no_std crate / its driver does not compile: %s" % d.get("rendered", "")[:600])
            else:
                f = (c.runrec.get("bin") or {}).get("facts", {})
                names = [k for k in f if not k.endswith(":value")]
                if len(names) < 16:
                    raise core.Inconclusive("no_std driver observed too little: %s" % f)
                for k in names:
                    if f[k] != "true":
                        rep.violation(c.id, "no_std:behaviour:" + k, "no_std case `%s`: trait call differs from direct call (%s)" % (k, f.get(k + ":value")))
                    else:
                        rep.bump("no_std_calls_equal")
            rep.count(c.sig(), True)
    core.floors(rep, twin_runs_equal=n, expansions_scanned=2 * n, no_std_calls_equal=16, marker_named_cases_ok=2, abs_impl_path_case_ok=1)
    rep.assumptions = ["user tokens of these corpora never contain watch-listed names bare (generators use absolute paths), so a bare occurrence is macro-made",
                       "reserved names EntraitT / __impl are never used by the generators"]
    return rep.finish(by)
