"""C10 - mock code is generated only when enabled and is test-gated unless exported.
The full option lattice is enumerated. Oracle: 15-line executable model of the documented rules,
compared (R) with the mock attributes on the recorded trait and (T) with run-time probes for the
unimock impl / the mockall type in non-test and test builds of the same crate."""
import itertools
from .. import core, tok, selftest
from ..core import Case

PROP = "C10"


def model(macro, feature, unimock, mock_api, mockall, export, target):
    if target == "cfn":
        target = "fn"   # a fn with a concrete dependency: same rules (its leaf trait is expanded once more, in trait mode)
    if target in ("trait0", "mod0"):
        target = target[:-1]   # a trait without methods / a module without visible fns: same rules
    unimock_on = unimock if unimock is not None else feature
    emit_unimock = unimock_on and (target == "trait" or mock_api)
    emit_mockall = mockall is True
    exporting = export if (export is not None and target != "trait") else (macro == "entrait_export")
    gated = not exporting
    return {"unimock": emit_unimock, "mockall": emit_mockall, "gated": gated}


def lattice():
    pts = []
    for macro, feature, unimock, mock_api, mockall, target in itertools.product(
            ["entrait", "entrait_export"], [False, True], [None, True, False], [False, True], [None, True, False],
            ["fn", "mod", "trait", "cfn", "trait0", "mod0"]):
        for export in ([None, True, False] if not target.startswith("trait") else [None]):
            pts.append(dict(macro=macro, feature=feature, unimock=unimock, mock_api=mock_api, mockall=mockall,
                            export=export, target=target))
    return pts


def opt_text(rng, p):
    opts = []
    if p["unimock"] is not None:
        opts.append(("unimock" if (p["unimock"] and rng.random() < 0.5) else "unimock = %s" % str(p["unimock"]).lower()))
    if p["mock_api"]:
        opts.append("mock_api = TrMock")
    if p["mockall"] is not None:
        opts.append(("mockall" if (p["mockall"] and rng.random() < 0.5) else "mockall = %s" % str(p["mockall"]).lower()))
    if p["export"] is not None:
        opts.append(("export" if (p["export"] and rng.random() < 0.5) else "export = %s" % str(p["export"]).lower()))
    rng.shuffle(opts)
    return opts


def make_case(cid, p, rng, e2e):
    opts = opt_text(rng, p)
    t = p["target"]
    # the requested / written visibility of the trait is not a dimension of the rules: drawn per point
    vis = rng.choice(["pub ", "pub ", "", "pub(crate) "])
    if t in ("trait", "trait0"):
        attr = "#[::entrait::%s(%s)] /*@inv*/" % (p["macro"], ", ".join(opts))
        # (the shape of the trait header is not a dimension of the rules either: supertraits that the mock types satisfy, a where clause)
        # (`Send`, not `Sync`: mockall's mock objects are not `Sync`)
        sup = rng.choice(["", "", ": ::core::marker::Send", ": 'static", ": ::core::marker::Sized + ::core::marker::Send + 'static", " where Self: ::core::marker::Send"])
        if t == "trait" and rng.random() < 0.4:
            # (nor is the delegation: with a delegation-target trait the mock derivations still belong to `Tr` alone)
            attr = "#[::entrait::%s(%s)] /*@inv*/" % (p["macro"], ", ".join([rng.choice(["TrImpl, delegate_by = ref", "TrImpl, delegate_by = Borrow", "TrImpl, delegate_by = DelegateTr"])] + opts))
            sup = ": 'static"
        item = (vis + "trait Tr%s { fn f(&self, a: i32) -> i32; }" % sup) if t == "trait" else (vis + "trait Tr%s {}" % sup)
        scope = "self"
    elif t == "fn":
        attr = "#[::entrait::%s(%s)] /*@inv*/" % (p["macro"], ", ".join([vis + "Tr"] + opts))
        item = "fn f<D>(deps: &D, a: i32) -> i32 { a }"
        scope = "self"
    elif t == "cfn":
        attr = "pub struct Cfg;\n#[::entrait::%s(%s)] /*@inv*/" % (p["macro"], ", ".join([vis + "Tr"] + opts))
        item = "fn f(deps: &Cfg, a: i32) -> i32 { a }"
        scope = "self"
    else:
        attr = "#[::entrait::%s(%s)] /*@inv*/" % (p["macro"], ", ".join([vis + "Tr"] + opts))
        item = "pub mod m { pub fn f<D>(deps: &D, a: i32) -> i32 { a } }" if t == "mod" else "pub mod m { fn helper() -> i32 { 1 } pub struct NotAFn; }"
        scope = "self::m"
    lines = [attr, item, "pub fn run() {", '    ::vrt::fact("is_test", cfg!(test));']
    if e2e:
        if p["feature"]:
            lines.append('    ::vrt::fact("unimock_impl", ::vrt::implements!(::unimock::Unimock: Tr));')
            # a non-mockable fn/mod is implemented for *every* Sync + 'static type (blanket impl), Unimock included
            lines.append('    struct __Other; ::vrt::fact("blanket_impl", ::vrt::implements!(__Other: Tr));')
        lines.append('    ::vrt::fact("mockall_type", ::vrt::exists_type!(%s, MockTr));' % scope)
    lines.append("}")
    return Case(cid, "\n".join(lines) + "\n", meta={"point": p, "e2e": e2e, "opts": opts}, run=True)


def observed_attrs(rec):
    """Mock attributes on the emitted trait: set of (kind, gated)."""
    out = rec["output"]
    inp = rec["input"]
    kind = tok.item_kind(inp)["kind"]
    if kind == "mod":
        bi = tok.find_brace(inp)
        items = tok.split_items(out[bi]["s"][len(inp[bi]["s"]):])
    elif kind == "fn":
        items = tok.split_items(out[len(inp):])
    else:
        items = tok.split_items(out)
    return attrs_of_trait(items)


def attrs_of_trait(items):
    res = set()
    found = False
    for it in items:
        k = tok.item_kind(it)
        if k["kind"] == "trait" and k["name"] == "Tr":
            found = True
            for a in k["attrs"]:
                path = tok.attr_path(a)
                gated = False
                inner = a
                if path == "cfg_attr":
                    g = next((t for t in a if tok.is_g(t, "(")), None)
                    if g is None:
                        continue
                    parts = g["s"]
                    if not (len(parts) >= 2 and tok.is_i(parts[0], "test") and tok.is_p(parts[1], ",")):
                        res.add(("cfg_attr-with-other-predicate:" + tok.render(parts[:2]), True))
                        continue
                    inner = parts[2:]
                    path = tok.attr_path(inner)
                    gated = True
                if path == "::entrait::__unimock::unimock":
                    res.add(("unimock", gated))
                elif path == "::mockall::automock":
                    res.add(("mockall", gated))
                elif "unimock" in path or "mock" in path:
                    res.add(("unexpected:" + path, gated))
        elif k["kind"] == "trait":
            # any other trait the expansion emits (delegation target, selector): never a mock derivation on it
            for a in k["attrs"]:
                if "mock" in tok.render(a):
                    res.add(("unexpected-on-%s:%s" % (k["name"], tok.attr_path(a)), False))
    return res if found else None


def run(tier, seed):
    rep = core.Report(PROP, tier, seed)
    rep.rule = ("the full lattice {entrait, entrait_export} x {feature off,on} x unimock{absent,true,false} x mock_api{absent,present} "
                "x mockall{absent,true,false} x export{absent,true,false; fn/mod} x {fn, fn with concrete deps, mod, mod without visible fns, trait, trait without methods} is enumerated; every point is decided "
                "on the recorded trait attributes, and end-to-end in a non-test and a test build through probes "
                "(Unimock: Trait? does MockTr exist?) wherever the point can compile (feature off + unimock emission cannot: "
                "::entrait::__unimock does not exist). non-trivial = some mock option or the feature is on")
    pts = lattice()
    rng = core.rng_for(PROP, seed)
    by = {}
    checked_r = 0
    for feature in (False, True):
        label = "on" if feature else "off"
        cases = []
        for i, p in enumerate([q for q in pts if q["feature"] == feature]):
            m = model(**p)
            compiles = feature or not m["unimock"]
            cases.append(make_case("c10%s_%03d" % (label, i), p, rng, e2e=compiles))
        st = selftest.case("selftest_c10" + label)
        ws_e = core.Workspace(PROP, label, unimock=feature, deps=("mockall",) + (("unimock",) if feature else ()))
        ws_e.extend([c for c in cases if c.meta["e2e"]] + [st])
        ws_e.write()
        b1 = ws_e.build()
        ws_e.run(b1["exes"], tag="bin")
        selftest.verify(st, "bin")
        b2 = ws_e.build(test=True, build_tag="test")
        ws_e.run(b2["exes"], tag="test")
        selftest.verify(st, "test")
        # points that cannot compile end-to-end are decided on the recorder only
        ws_x = core.Workspace(PROP, label + "x", unimock=feature, expand_only=True)
        rest = [c for c in cases if not c.meta["e2e"]]
        if rest:
            ws_x.extend(rest)
            ws_x.write()
            ws_x.build()
        for c in cases:
            by[c.id] = c
            p = c.meta["point"]
            m = model(**p)
            nontrivial = p["feature"] or p["unimock"] or p["mockall"] or p["mock_api"]
            rep.count(c.sig(), bool(nontrivial))
            rep.bucket("targets", p["target"])
            if c.removed is not None:
                d = (c.removed["diags"] or [{}])[0]
                rep.violation(c.id, "compile:%s" % d.get("code"), "lattice point %s %s does not compile: %s" % (p, c.meta["opts"], d.get("message", "")[:200]))
                continue
            # R: attributes
            exp = set()
            if m["unimock"]:
                exp.add(("unimock", m["gated"]))
            if m["mockall"]:
                exp.add(("mockall", m["gated"]))
            for tag, recs in (c.records_by.items() if c.records_by else [("x", c.records)]):
                recs = [r for r in recs if r["status"] == "end" and r["line"] == c.marks["inv"]]
                if not recs:
                    raise core.Inconclusive("no record for %s (%s)" % (c.id, tag))
                bad = False
                # (a concrete-deps fn has two records: its own expansion and the nested trait-mode expansion of the leaf trait)
                for r in (recs if p["target"] == "cfn" else recs[:1]):
                    obs = observed_attrs(r)
                    if obs is None:
                        raise core.Inconclusive("trait not found in output of %s" % c.id)
                    checked_r += 1
                    want_here = exp
                    if p["target"] == "cfn" and tok.item_kind(r["input"])["kind"] == "trait":
                        # the nested trait-mode expansion of the leaf trait (rustc has already resolved cfg_attr): adds nothing
                        want_here = attrs_of_trait(tok.split_items(r["input"]))
                        if obs != want_here:
                            rep.violation(c.id, "nested-adds-attrs:%s" % ",".join(sorted("%s/%s" % (k, "gated" if g else "plain") for k, g in obs)),
                                          "point %s (options %s): the nested expansion of the leaf trait changed the mock attributes from %s to %s" % (
                                              p, c.meta["opts"], sorted(want_here or []), sorted(obs)))
                            bad = True
                            break
                        continue
                    if obs != exp:
                        rep.violation(c.id, "attrs:%s" % ",".join(sorted("%s/%s" % (k, "gated" if g else "plain") for k, g in obs)) ,
                                      "point %s (options %s): mock attributes on the trait are %s, model says %s" % (
                                          p, c.meta["opts"], sorted(obs), sorted(exp)))
                        bad = True
                        break
                if p["target"] == "cfn" and len(recs) != 2:
                    raise core.Inconclusive("expected two expansion records for the concrete-deps fn %s, saw %d" % (c.id, len(recs)))
                if bad:
                    break
            # T: probes in both builds
            if c.meta["e2e"]:
                for tag, is_test in (("bin", False), ("test", True)):
                    rec = c.runrec.get(tag)
                    if not rec or rec.get("panic") or rec.get("crash"):
                        raise core.Inconclusive("no run record for %s in %s build: %s" % (c.id, tag, rec))
                    f = rec["facts"]
                    if f.get("is_test") != str(is_test).lower():
                        raise core.Inconclusive("build kind mismatch for %s" % c.id)
                    exists = lambda emitted: emitted and (not m["gated"] or is_test)
                    if "unimock_impl" in f:
                        want = exists(m["unimock"])
                        have_u = f["unimock_impl"] == "true" and f["blanket_impl"] != "true"
                        if have_u != want:
                            rep.violation(c.id, "unimock-impl:%s:%s" % (tag, f["unimock_impl"]),
                                          "point %s (options %s), %s build: Unimock implements the trait = %s, model says %s" % (
                                              p, c.meta["opts"], tag, f["unimock_impl"], want))
                    have = "::run::MockTr" not in f["mockall_type"]
                    want = exists(m["mockall"])
                    if have != want:
                        rep.violation(c.id, "mockall-type:%s:%s" % (tag, have),
                                      "point %s (options %s), %s build: MockTr exists = %s (%s), model says %s" % (
                                          p, c.meta["opts"], tag, have, f["mockall_type"], want))
                    rep.bump("e2e_probe_points")
            rep.sample({"point": p, "options": c.meta["opts"], "model": m,
                        "observed_bin": (c.runrec.get("bin") or {}).get("facts"), "observed_test": (c.runrec.get("test") or {}).get("facts")}, limit=4)
    rep.exhaustive = True
    rep.extra["lattice_points"] = len(pts)
    rep.extra["recorder_decisions"] = checked_r
    core.floors(rep, e2e_probe_points=len(pts), recorder_decisions=len(pts))
    return rep.finish(by)
