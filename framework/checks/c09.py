"""C09 - an entraited trait definition is preserved.
Oracle: structural token comparison of the recorded input trait with the first emitted item,
modulo the attributes the macro owns and the documented async rewrite."""
import hashlib
from .. import core, tok
from ..core import Case
from ..gen import traits as tg

PROP = "C09"

OWNED_PATHS = ("::entrait::__unimock::unimock", "::mockall::automock")


def T(s):
    """Tiny tokenizer for fixed generated snippets (idents and single-char puncts)."""
    out = []
    for w in s.split():
        if w[0].isalpha() or w[0] == "_":
            out.append({"i": w})
        else:
            for ch in w:
                out.append({"p": ch})
    return out


def is_owned(attr):
    p = tok.attr_path(attr)
    if p in OWNED_PATHS:
        return True
    if p == "cfg_attr":
        g = next((t for t in attr if tok.is_g(t, "(")), None)
        if g and len(g["s"]) > 2 and tok.is_i(g["s"][0], "test"):
            return tok.attr_path(g["s"][2:]) in OWNED_PATHS
    return False


def expected_item(item, has_async_trait, send):
    """Expected tokens of one trait item after the documented rewrite."""
    k = tok.item_kind(item)
    if k["kind"] != "fn" or "async" not in k["quals"] or has_async_trait:
        return item
    attrs_end = tok.split_attrs(item)[1]
    out = list(item[:attrs_end])
    rest = [t for t in item[attrs_end:k["at"]] if not tok.is_i(t, "async")] + item[k["at"]:]
    pi = next(i for i, t in enumerate(rest) if tok.is_g(t, "("))
    tail = rest[pi + 1:]
    # tail: [-> ret] [where ...] ;
    ret = T("( )")
    ret = [{"g": "(", "s": []}]
    wi = next((i for i, t in enumerate(tail) if tok.is_i(t, "where")), None)
    end = wi if wi is not None else len(tail) - 1
    if len(tail) >= 2 and tok.is_p(tail[0], "-") and tok.is_p(tail[1], ">"):
        ret = tail[2:end]
    fut = T("- > impl : : core : : future : : Future < Output =") + ret + T(">")
    if send:
        fut += T("+ : : core : : marker : : Send")
    return out + rest[:pi + 1] + fut + tail[end:]


def compare(inp, out, send):
    """-> list of (component, message)"""
    diffs = []
    items = tok.split_items(out)
    if not items:
        return [("shape", "no output items")]
    first = items[0]
    ki, ko = tok.item_kind(inp), tok.item_kind(first)
    if ko["kind"] != "trait":
        return [("shape", "first emitted item is `%s`, not the trait" % ko["kind"])]
    a_in = [a for a in ki["attrs"]]
    a_out = [a for a in ko["attrs"] if not is_owned(a)]
    has_async_trait = any(tok.attr_path(a).split("::")[-1] == "async_trait" for a in a_in)
    if [tok.leaves(a) for a in a_in] != [tok.leaves(a) for a in a_out]:
        missing = [tok.render(a) for a in a_in if tok.leaves(a) not in [tok.leaves(b) for b in a_out]]
        added = [tok.render(a) for a in a_out if tok.leaves(a) not in [tok.leaves(b) for b in a_in]]
        diffs.append(("trait-attrs", "trait attributes differ: missing %s, added %s" % (missing, added)))
    if tok.leaves(ki["vis"]) != tok.leaves(ko["vis"]):
        diffs.append(("vis", "visibility `%s` became `%s`" % (tok.render(ki["vis"]), tok.render(ko["vis"]))))
    if ki["quals"] != ko["quals"]:
        diffs.append(("qualifiers:" + ",".join(ki["quals"]), "qualifiers %s became %s" % (ki["quals"], ko["quals"])))
    bi, bo = tok.find_brace(inp), tok.find_brace(first)
    hi, ho = inp[ki["at"]:bi], first[ko["at"]:bo]
    if tok.leaves(hi) != tok.leaves(ho):
        diffs.append(("header", "header `%s` became `%s`" % (tok.render(hi), tok.render(ho))))
    ii, io = tok.split_items(inp[bi]["s"]), tok.split_items(first[bo]["s"])
    # default bodies end an item with a brace group: split_items handles both
    if len(ii) != len(io):
        names = lambda its: [(tok.item_kind(x)["kind"], tok.item_kind(x)["name"]) for x in its]
        diffs.append(("item-count", "trait has %d items, emitted trait has %d: %s -> %s" % (len(ii), len(io), names(ii), names(io))))
    for x, y in zip(ii, io):
        exp = expected_item(x, has_async_trait, send)
        if tok.leaves(exp) != tok.leaves(y):
            kx = tok.item_kind(x)
            diffs.append(("item:" + str(kx["kind"]), "item `%s` emitted as `%s`, expected `%s`" % (
                tok.render(x, 300), tok.render(y, 300), tok.render(exp, 300))))
            break
    return diffs


OPTION_SETS = [
    ("", False), ("", False), ("mock_api = TrMock, unimock", False), ("mockall", False), ("?Send", False),
    ("unimock = false, mockall = false", False), ("delegate_by = Self", False), ("?Send, mockall = true, unimock", False),
    ("delegate_by = ref", True), ("delegate_by = Borrow", True), ("TrImpl, delegate_by = DelegateTr", False),
    ("pub TrImpl, delegate_by = DelegateTr, ?Send", False), ("TrImpl, delegate_by = ref", True), ("debug = false", False),
]

# pinned inputs of recorded findings (never produced by the random generator)
KNOWN_PINS = [
    ("default_method", "", "pub trait Tr { fn req(&self) -> i32; fn provided(&self) -> i32 { self.req() + 1 } }"),
    ("assoc_type", "", "pub trait Tr { type Out; fn get(&self) -> i32; }"),
    ("unsafe_trait", "", "pub unsafe trait Tr { fn get(&self) -> i32; }"),
]


def run(tier, seed):
    rep = core.Report(PROP, tier, seed)
    rep.rule = ("random trait definitions (trait/method attributes incl. docs and lints, visibility, type generics with bounds, "
                "supertraits, where clauses, 1-4 &self methods with borrowed/generic returns, async with and without async_trait) x all "
                "trait-mode option sets x both macro names; recorder input vs first emitted item, component by component; "
                "non-trivial = trait-level attribute/generic/supertrait/where and >= 2 items")
    n = 1500 if tier == "quick" else 15000
    rng = core.rng_for(PROP, seed)
    cases = []
    for i in range(n):
        opts, dyn = rng.choice(OPTION_SETS)
        with_at = rng.random() < 0.3
        t = tg.random_trait(rng, "Tr", dyn_safe=dyn, with_async_trait=with_at, allow_ghost=True)
        macro = rng.choice(["entrait", "entrait", "entrait_export"])
        src = "#[::entrait::%s(%s)] /*@inv*/\n%s\n" % (macro, opts, t.source())
        nt = bool(t.attrs or t.generic or t.supers or t.where) and len(t.methods) >= 2
        cases.append(Case("c09_%05d" % i, src, meta={"opts": opts, "send": "?Send" not in opts, "nontrivial": nt}, run=False, expect="expand"))
    pins = [Case("c09known_" + name, "#[::entrait::entrait(%s)] /*@inv*/\n%s\n" % (o, item),
                 meta={"opts": o, "send": True, "nontrivial": True, "pin": name}, run=False, expect="expand") for name, o, item in KNOWN_PINS]
    ws = core.Workspace(PROP, "x", expand_only=True)
    ws.extend(cases + pins)
    ws.write()
    ws.build()
    by = {c.id: c for c in cases + pins}
    for c in cases + pins:
        recs = [r for r in c.records if r["line"] == c.marks["inv"]]
        if not recs:
            raise core.Inconclusive("no record for %s: %s" % (c.id, c.diags[:1]))
        r = recs[0]
        if r["status"] != "end":
            rep.violation(c.id, "no-output", "expansion did not return: %s" % r.get("panic"), pinned=c.meta.get("pin"))
            continue
        if "compile_error" in tok.idents(r["output"][:8]):
            rep.violation(c.id, "rejected", "accepted-class trait rejected: %s" % [d["message"][:100] for d in c.diags], pinned=c.meta.get("pin"))
            continue
        diffs = compare(r["input"], r["output"], c.meta["send"])
        for comp, msg in diffs:
            rep.violation(c.id, "trait-changed:" + comp, msg, {"input": tok.render(r["input"], 2000), "output": tok.render(r["output"], 4000)},
                          pinned=c.meta.get("pin"))
        rep.count(hashlib.sha1(repr(tok.leaves(r["input"])).encode()).hexdigest(), c.meta["nontrivial"])
        rep.bucket("options", c.meta["opts"] or "-")
        rep.bump("async_methods_rewritten", sum(1 for it in tok.split_items(r["input"][tok.find_brace(r["input"])]["s"]) if "async" in tok.item_kind(it)["quals"]))
        rep.sample({"attr": tok.render(r["attr"]), "input": tok.render(r["input"], 500), "emitted_trait": tok.render(tok.split_items(r["output"])[0], 700)}, limit=3)
    rep.bump("expansion_records", sum(len(c.records) for c in cases))
    core.floors(rep, evaluations=n // 2, async_methods_rewritten=n // 10)
    return rep.finish(by)
