"""C16 - generated parameter names are usable for every parameter pattern list.
Exhaustive enumeration of pattern lists up to a length bound; oracle on the recorded trait
method (naming rules), on the compiler (the case compiles) and on the run (C01 oracle)."""
import itertools
from .. import core, tok, selftest
from ..gen.fns import FnSpec, Param, TYPES
from ..gen.fncases import FnCaseBuilder
from . import c01

PROP = "C16"
FN = "foo"

# symbol -> (type key, form, pattern index, special name or None)
ALPHABET = {
    "x": ("i32", "plain", 0, None),
    "mut x": ("i32", "mut", 0, None),
    "ref x": ("i32", "ref", 0, None),
    "r#x": ("i32", "raw", 0, None),
    "_": ("i32", "wild", 0, None),
    "(a,b)": ("tup", "destr", 0, None),
    "N(a)": ("N", "destr", 0, None),
    "N2(a,_)": ("N2", "destr", 0, None),
    "S{a}": ("S", "destr", 0, None),
    "&a": ("refi", "destr", 0, None),
    "=fn": ("i32", "plain", 0, FN),
    "=fn_": ("i32", "plain", 0, FN + "_"),
    "=fn__": ("i32", "plain", 0, FN + "__"),
    "=arg0": ("i32", "plain", 0, "arg0"),
    "=arg1": ("i32", "plain", 0, "arg1"),
    "=_arg1": ("i32", "plain", 0, "_arg1"),
    "r#=arg0": ("i32", "raw", 0, "arg0"),
    "N(=fn)": ("N", "destr", 0, FN),
    "N(=fn_)": ("N", "destr", 0, FN + "_"),
    "N(_u)": ("N", "destr", 0, "_und"),      # a single binding whose name starts with an underscore
    "r#=fn": ("i32", "raw", 0, FN),
    "mut =fn": ("i32", "mut", 0, FN),
    "ref =fn": ("i32", "ref", 0, FN),
    # single-binding destructurings whose binding is a raw identifier (keyword / non-keyword)
    # a binding that starts with a non-ASCII lower-case letter is a binding like any other
    "N(é)": ("N", "destr", 0, "épaisseur"),
    # an all-underscore binding (no letter at all: `__` could equally be a constant, any fresh name is acceptable for it)
    "N(__)": ("N", "destr", 0, "__"),
    # two bindings, one of them non-ASCII: no single binding to take the name from
    "N2(a,λ)": ("N2", "destr", 1, ("vx", "λ")),
    # a top-level binding with a sub-pattern (`whole @ (_, _)`): one binding, the trait method declares just the identifier
    "x@(_,_)": ("tup", "destr", 3, None),
    "x@[..]": ("arr", "destr", 2, None),
    # slice patterns: one binding (takes its name) / two bindings (generated name)
    "[a,..]": ("arr", "destr", 1, None),
    "[a,b]": ("arr", "destr", 0, None),
    # bindings spelled with two leading underscores are bindings like any other (round 19): one keeps its name, one of two does not lend it
    "N(__u)": ("N", "destr", 0, "__mm"),
    "N2(__u,b)": ("N2", "destr", 1, ("__pad", "wb")),
    "N(r#kw)": ("N", "destr", 0, "r#type"),
    "&r#id": ("refi", "destr", 0, "r#v_raw"),
}
IMPL_ALPHABET_EXTRA = {"=__impl": ("i32", "plain", 0, "__impl"), "N(=__impl)": ("N", "destr", 0, "__impl"), "=__impl_": ("i32", "plain", 0, "__impl_")}
# symbols added after round 8: enumerated exhaustively up to length 2 only (plus samples), to keep the quick tier quick
LATE_SYMBOLS = {"N(__u)", "N2(__u,b)", "N(é)", "N(__)", "N2(a,λ)", "x@(_,_)", "x@[..]", "[a,..]", "[a,b]"}
SPECIAL_ONCE = {"N(__u)", "N2(__u,b)", "N(é)", "N(__)", "N(_u)", "N(=fn_)", "mut =fn", "ref =fn", "N(r#kw)", "&r#id", "r#=arg0", "=fn", "=fn_", "=fn__", "=arg0", "=arg1", "=_arg1", "N(=fn)", "r#=fn"}


def valid(lst):
    # a binding name may occur only once in a parameter list (E0415 is the user's error)
    names = []
    for s in lst:
        sp = ALPHABET[s][3]
        if sp:
            names += list(sp) if isinstance(sp, tuple) else [sp]
    return len(names) == len(set(names))


def make_fn(lst, no_deps, is_async=False, name=FN):
    f = FnSpec(name)
    f.deps_kind = "no_deps" if no_deps else "generic_ref"
    f.is_async = is_async
    f.ret = "owned"
    for i, s in enumerate(lst):
        tkey, form, pi, special = ALPHABET[s]
        ty = TYPES[tkey]
        if form == "destr":
            nb = ty.pats[pi][1]
            names = (list(special) if isinstance(special, tuple) else [special]) if special else ["v%d%s" % (i, "ab"[k]) for k in range(nb)]
            p = Param(ty, "destr", names, pi)
        elif form == "wild":
            p = Param(ty, "wild", [])
        else:
            p = Param(ty, form, [special or "v%d" % i])
        p.symbol = s
        f.params.append(p)
    return f


def unraw(n):
    return n[2:] if n.startswith("r#") else n


def expected_names(lst, f):
    """Per parameter: the name the statement prescribes, or None when any fresh name is fine."""
    out = []
    for p in f.params:
        s = p.symbol
        tkey, form, pi, special = ALPHABET[s]
        if form in ("plain", "mut", "ref", "raw"):
            n = p.names[0]
            out.append(None if n == unraw(f.name) else (("r#" + n) if form == "raw" else n))
        elif form == "destr" and len(p.names) == 1:
            n = p.names[0]
            out.append(None if unraw(n) == unraw(f.name) or not n.strip("_") else n)
        else:
            out.append(None)
    return out


def trait_method_params(rec, fname):
    """Parameter patterns (token lists before the ':') of method `fname` in the generated trait."""
    out = rec["output"]
    if tok.item_kind(rec["input"])["kind"] == "mod":
        bi = tok.find_brace(rec["input"])
        rest = out[bi]["s"][len(rec["input"][bi]["s"]):]
    else:
        rest = out[len(rec["input"]):]
    for it in tok.split_items(rest):
        k = tok.item_kind(it)
        if k["kind"] == "trait":
            body = it[-1]["s"]
            for m in tok.split_items(body):
                mk = tok.item_kind(m)
                if mk["kind"] == "fn" and mk["name"] == fname:
                    par = next(t for t in m[mk["at"]:] if tok.is_g(t, "("))
                    res = []
                    for p in tok.split_commas(par["s"]):
                        ci = next((i for i, t in enumerate(p) if tok.is_p(t, ":")), None)
                        if ci is None:
                            res.append(("recv", p))
                        else:
                            res.append(("typed", p[:ci]))
                    return res
    return None


def check_names(c, rep, pinned=None):
    f = c.meta["spec"]
    lst = c.meta["list"]
    recs = [r for r in c.records if r["status"] == "end" and tok.item_kind(r["input"])["kind"] in ("fn", "mod")]
    if not recs:
        bad = [r for r in c.records if r["status"] != "end"]
        if bad:
            rep.violation(c.id, "expansion-" + bad[0]["status"], "expansion did not return for list %s: %s" % (lst, bad[0].get("panic")), pinned=pinned)
            return
        raise core.Inconclusive("no expansion record for %s" % c.id)
    ps = trait_method_params(recs[0], "r#" + f["name"] if False else f["name"])
    if ps is None:
        raise core.Inconclusive("cannot find generated trait method in %s" % c.id)
    typed = [p for k, p in ps if k == "typed"]
    if len(typed) != len(lst):
        rep.violation(c.id, "param-count", "generated method has %d parameters, function has %d" % (len(typed), len(lst)), pinned=pinned)
        return
    names = []
    for p in typed:
        if len(p) != 1 or "i" not in p[0]:
            rep.violation(c.id, "non-ident-param", "generated parameter is not a plain identifier: `%s` (list %s)" % (tok.render(p), lst), pinned=pinned)
            return
        names.append(p[0]["i"])
    if len({n[2:] if n.startswith("r#") else n for n in names}) != len(names):
        rep.violation(c.id, "duplicate-names", "generated parameter names are not distinct: %s (list %s)" % (names, lst), pinned=pinned)
        return
    if unraw(f["name"]) in [n[2:] if n.startswith("r#") else n for n in names]:
        rep.violation(c.id, "shadows-fn", "a generated parameter shadows the function `%s`: %s (list %s)" % (f["name"], names, lst), pinned=pinned)
        return
    for own, got, sym in zip(c.meta.get("bindings", []), names, lst):
        if got in own:
            rep.violation(c.id, "name-taken-from-one-of-several", "pattern `%s` binds %s: it has to get a generated name, got `%s`" % (sym, own, got), pinned=pinned)
            return
    for want, got, sym in zip(c.meta["expected"], names, lst):
        if want is not None and want != got and want not in names:
            # the prescribed name is free but was not used
            rep.violation(c.id, "name-not-kept", "pattern `%s` should be named `%s`, got `%s` (all: %s)" % (sym, want, got, names), pinned=pinned)
            return
        if want is not None and want != got:
            rep.violation(c.id, "name-not-kept", "pattern `%s` should be named `%s`, got `%s` (all: %s)" % (sym, want, got, names), pinned=pinned)
            return
    rep.bump("methods_checked")
    c.meta["observed_names"] = names


IMPL_SYM = "=__impl"     # the name entrait invents for the `&Impl<T>` parameter of delegation-target traits


def impl_block_case(cid, lst, dynamic):
    """The list as parameters of a fn inside an entraited impl block (delegation-target trait, static or dynamic
    selection): the generated trait method gets an invented `__impl` parameter in front of the list."""
    from ..gen.fns import SUPPORT
    f = make_fn(lst, False)
    tys = [p_.type_text() for p_ in f.params]
    L = sorted({SUPPORT[n] for p_ in f.params for n in p_.ty.needs})
    L.append("#[::entrait::entrait(SubjImpl, delegate_by = %s)]" % ("ref" if dynamic else "DelegateSubj"))
    L.append("pub trait Subj { fn %s(&self%s) -> ::std::string::String; }" % (FN, "".join(", p%d: %s" % (i, t) for i, t in enumerate(tys))))
    L.append("pub struct X;")
    binds = [b for p_ in f.params for b in p_.bindings()]
    L.append("#[::entrait::entrait%s] /*@inv*/" % ("(ref)" if dynamic else ""))
    L.append("impl SubjImpl for X {")
    L.append("    pub fn %s<D>(deps: &D%s) -> ::std::string::String { let _ = deps; ::std::format!(\"{:?}\", (%s)) }" % (
        FN, "".join(", " + p_.decl() for p_ in f.params), "".join("&%s, " % b for b in binds)))
    L.append("}")
    L.append("pub struct App;")
    if dynamic:
        L.append("impl ::core::convert::AsRef<dyn SubjImpl<App>> for App { fn as_ref(&self) -> &(dyn SubjImpl<App> + 'static) { &X } }")
    else:
        L.append("impl DelegateSubj<Self> for App { type Target = X; }")
    D = ["pub fn run() {", "    let app = ::entrait::Impl::new(App);", '    ::vrt::phase("impl-list");']
    s1, e1, d1 = f.call_args(1, "t")
    s2, e2, _d2 = f.call_args(1, "d")
    D += ["    " + x for x in s1 + s2]
    D.append('    ::vrt::kv("via_trait", Subj::%s(&app%s));' % (FN, "".join(", " + e for e in e1)))
    D.append('    ::vrt::kv("direct", X::%s(&app%s));' % (FN, "".join(", " + e for e in e2)))
    D.append("}")
    want = "()" if not d1 else ("(%s,)" % d1[0] if len(d1) == 1 else "(%s)" % ", ".join(d1))
    return core.Case(cid, "\n".join(L + D) + "\n", meta={"impl_list": True, "list": list(lst), "dynamic": dynamic, "want": want,
                                                          "nontrivial": True, "spec": {"name": FN, "no_deps": False},
                                                          "expected": expected_names(lst, f)})


def impl_method_params(c):
    """Parameter names of the delegation-target trait method generated for the impl block."""
    recs = [r for r in c.records if r["status"] == "end" and tok.item_kind(r["input"])["kind"] == "impl"]
    if not recs:
        return None
    for it in tok.split_items(recs[0]["output"]):
        k = tok.item_kind(it)
        if k["kind"] == "impl" and any(tok.is_i(t, "SubjImpl") for t in it[:-1]):
            for m in tok.split_items(it[-1]["s"]):
                mk = tok.item_kind(m)
                if mk["kind"] == "fn" and mk["name"] == FN:
                    par = next(t for t in m[mk["at"]:] if tok.is_g(t, "("))
                    res = []
                    for p_ in tok.split_commas(par["s"]):
                        ci = next((i for i, t in enumerate(p_) if tok.is_p(t, ":")), None)
                        res.append(None if ci is None else p_[:ci])
                    return res
    return None


def check_impl_list(c, rep):
    m = c.meta
    if c.removed is not None:
        d = (c.removed["diags"] or [{}])[0]
        rep.violation(c.id, "impl-block:compile:%s" % d.get("code"), "impl-block fn with parameter list %s (%s selection) does not compile: %s" % (
            m["list"], "dynamic" if m["dynamic"] else "static", d.get("message", "")[:300]))
        return
    ps = impl_method_params(c)
    if ps is None:
        raise core.Inconclusive("cannot find the generated impl method in %s" % c.id)
    typed = [p_ for p_ in ps if p_ is not None]
    names = []
    for p_ in typed:
        if len(p_) != 1 or "i" not in p_[0]:
            rep.violation(c.id, "impl-block:non-ident-param", "generated parameter is not a plain identifier: `%s` (list %s)" % (tok.render(p_), m["list"]))
            return
        names.append(p_[0]["i"])
    if len({unraw(n) for n in names}) != len(names):
        rep.violation(c.id, "impl-block:duplicate-names", "generated parameter names are not distinct: %s (list %s)" % (names, m["list"]))
        return
    user = names[len(names) - len(m["list"]):]
    for want, got, sym in zip(m["expected"], user, m["list"]):
        if want is not None and want != got and want != "__impl":   # (a binding named like the invented parameter gets any fresh name)
            rep.violation(c.id, "impl-block:name-not-kept", "pattern `%s` should be named `%s`, got `%s` (all: %s)" % (sym, want, got, names))
            return
    rec = c.runrec.get("bin")
    if not rec:
        raise core.Inconclusive("no run record for %s" % c.id)
    if rec.get("crash") or rec.get("panic"):
        rep.violation(c.id, "impl-block:panic", "case panicked: %s" % (rec.get("panic") or rec.get("crash"))[:300])
        return
    ph = {p_["label"]: p_ for p_ in rec["phases"]}
    kv = dict(ph.get("impl-list", {}).get("kv", {}))
    if kv.get("direct") != m["want"]:
        raise core.Inconclusive("harness: direct call of %s gave %s, generator expected %s" % (c.id, kv.get("direct"), m["want"]))
    if kv.get("via_trait") != m["want"]:
        rep.violation(c.id, "impl-block:not-positional", "arguments were not forwarded positionally: trait call gave %s, direct call %s (list %s)" % (
            kv.get("via_trait"), kv.get("direct"), m["list"]))
        return
    rep.bump("impl_block_methods_checked")
    rep.count(c.id, True)


def build_cases(lists, label, variants, fn_name=FN):
    cases = []
    i = 0
    for lst in lists:
        for (no_deps, is_async, mode) in variants:
            cid = "c16%s_%05d" % (label, i)
            i += 1
            f = make_fn(lst, no_deps, is_async, name=fn_name)
            rng = core.rng_for(PROP, 0, cid)
            b = FnCaseBuilder(cid, rng, mode=mode, options=[], macro="entrait")
            b.build_from([f])
            c = b.case()
            c.meta["list"] = list(lst)
            c.meta["spec"] = {"name": f.name, "no_deps": no_deps}
            c.meta["expected"] = expected_names(lst, f)
            c.meta["bindings"] = [(p_.names if p_.form == "destr" and len(p_.names) >= 2 else []) for p_ in f.params]
            c.meta["nontrivial"] = any(ALPHABET[s][1] in ("wild", "destr", "mut", "ref", "raw") or ALPHABET[s][3] for s in lst)
            cases.append(c)
    return cases


def run(tier, seed):
    rep = core.Report(PROP, tier, seed)
    rep.rule = ("all parameter pattern lists of length <= L over the alphabet %s (a binding name occurs at most once per list; the seven symbols "
                "added last - non-ASCII / all-underscore bindings, `x @ sub-pattern`, slice patterns - exhaustively up to length 2 and sampled at length 3), "
                "each as fn with deps and as no_deps fn (thorough: also async and module mode); sampled lists of length L+1. "
                "the lists of length <= 2 plus sampled longer ones (alphabet + `__impl`, `N(__impl)`, `__impl_`) also as parameters of a fn in an "
                "entraited impl block, static and dynamic selection (names of the generated target-trait method distinct, compiles, trait call = direct call). "
                "Checked: naming rules on the recorded trait method, the case compiles, C01 differential oracle at run time. "
                "non-trivial = list contains a non-plain pattern or a colliding name" % sorted(ALPHABET))
    syms = sorted(ALPHABET)
    core_syms = [s_ for s_ in syms if s_ not in LATE_SYMBOLS]
    L = 3
    lists = [()]
    for n in range(1, L + 1):
        lists += [l for l in itertools.product(core_syms, repeat=n) if valid(l)]
    for n in range(1, 3):
        lists += [l for l in itertools.product(syms, repeat=n) if valid(l) and any(s_ in LATE_SYMBOLS for s_ in l)]
    rng = core.rng_for(PROP, seed)
    late3 = set()
    while len(late3) < (3000 if tier == "quick" else 12000):
        l = tuple(rng.choice(syms) for _ in range(3))
        if valid(l) and any(s_ in LATE_SYMBOLS for s_ in l):
            late3.add(l)
    lists += sorted(late3)
    sample_n = 800 if tier == "quick" else 4000
    extra = set()
    while len(extra) < sample_n:
        l = tuple(rng.choice(syms) for _ in range(rng.choice([L + 1, L + 2, L + 3])))
        if valid(l):
            extra.add(l)
    variants = [(False, False, "fn"), (True, False, "fn")]
    cases = build_cases(lists, "e", variants) + build_cases(sorted(extra), "s", variants)
    # the same, with the function itself named by a raw identifier (`fn r#foo`), for the lists that mention its name
    FN_SYMS = {s_ for s_, v in ALPHABET.items() if isinstance(v[3], str) and v[3].replace("r#", "").rstrip("_") == FN}
    named = [l for l in lists if any(s_ in FN_SYMS for s_ in l)]
    cases += build_cases(named, "r", [(False, False, "fn")], fn_name="r#" + FN)
    rep.extra["lists_with_raw_fn_name"] = len(named)
    # the function itself named like a name the macro would generate (`arg0`, `arg1`, `_arg1`), for the short lists that contain a
    # pattern without a name of its own
    UNNAMED = {"_", "(a,b)", "N2(a,_)", "N2(a,λ)", "N2(__u,b)", "[a,b]"}
    gen_named = [l for l in lists if 1 <= len(l) <= 2 and any(s_ in UNNAMED for s_ in l)]
    for gname in ("arg0", "arg1", "_arg1"):
        cases += build_cases(gen_named, "g" + gname.replace("_", "u"), [(False, False, "fn")], fn_name=gname)
    rep.extra["lists_with_fn_named_like_a_generated_name"] = 3 * len(gen_named)
    # fns stamped out by macro_rules!: parameter names of one signature live in different hygiene contexts (same spelling,
    # distinct bindings): "forwards them positionally" has to hold for those as well
    from ..gen.fncases import macro_case
    hyg = [macro_case("c16h_%04d" % i, rng) for i in range(60 if tier == "quick" else 600)]
    for c in hyg:
        c.meta["hygiene_only"] = True
    cases += hyg
    # the lists as parameters of impl-block fns (delegation-target traits; static and dynamic selection): there the generated
    # method has an invented `__impl` parameter in front, which is one more "would-be generated name"
    ALPHABET.update(IMPL_ALPHABET_EXTRA)
    try:
        isyms = sorted(ALPHABET)
        il = [()] + [l for n_ in (1, 2) for l in itertools.product(isyms, repeat=n_) if valid(l)]
        while len(il) < (1500 if tier == "quick" else 6000):
            l = tuple(rng.choice(isyms) for _ in range(rng.choice([3, 4, 5])))
            if valid(l) and any(s_ in IMPL_ALPHABET_EXTRA for s_ in l):
                il.append(l)
        impl_cases = [impl_block_case("c16i_%05d" % i, l, dynamic=bool(i % 2)) for i, l in enumerate(il)]
    finally:
        for k_ in IMPL_ALPHABET_EXTRA:
            ALPHABET.pop(k_)
    rep.extra["impl_block_lists"] = len(impl_cases)
    cases += impl_cases
    if tier != "quick":
        cases += build_cases(lists, "v", [(False, True, "fn"), (False, False, "mod"), (True, True, "fn")])
        l4 = [l for l in itertools.product(core_syms, repeat=4) if valid(l)]
        cases += build_cases(l4, "f", [(False, False, "fn")])
        rep.extra["exhaustive_length_4_lists_with_deps"] = len(l4)
    # the corpus is processed in chunks of <= 40 000 cases (one workspace each): the token trees recorded for 200 000
    # expansions do not fit into memory at once together with 16 rustc processes
    by = {c.id: c for c in cases}
    CH = 40000
    rounds = 0
    for k in range(0, len(cases), CH):
        chunk = cases[k:k + CH]
        st = selftest.case("selftest_c16_%d" % (k // CH))
        ws = core.Workspace(PROP, "x%d" % (k // CH))
        ws.extend(chunk + [st])
        ws.write()
        b = ws.build()
        ws.run(b["exes"])
        selftest.verify(st)
        for c in chunk:
            if c.meta.get("impl_list"):
                check_impl_list(c, rep)
                c.records, c.records_by, c.runrec = [], {}, {}
                continue
            if not c.meta.get("hygiene_only"):
                check_names(c, rep)
            c01.check_case(c, rep)
            c.records, c.records_by, c.runrec = [], {}, {}
        rounds = max(rounds, ws.rounds)
        ws.all_records = []
        if len(cases) > CH:
            import shutil
            shutil.rmtree(ws.root, ignore_errors=True)
    rep.exhaustive = True
    rep.extra["exhaustive_lists_up_to_length"] = L
    rep.extra["enumerated_lists"] = len(lists)
    rep.extra["sampled_longer_lists"] = len(extra)
    rep.extra["fixpoint_rounds"] = rounds
    core.floors(rep, methods_checked=len(cases) // 2)
    return rep.finish(by)
