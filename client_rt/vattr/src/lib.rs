//! vattr - a foreign attribute macro used as a witness: it logs every invocation
//! (its arguments and the item it received) to `$VATTR_LOG/vattr-<pid>.jsonl`,
//! strips the inert helper attribute `#[vp(..)]` wherever it occurs in the item
//! (like feignhttp's `#[path]` on parameters), and re-emits the item otherwise unchanged.
extern crate proc_macro;
use proc_macro::{Delimiter, Group, Spacing, TokenStream, TokenTree};
use std::fmt::Write as _;
use std::io::Write as _;

fn esc(s: &str, out: &mut String) {
    out.push('"');
    for ch in s.chars() {
        match ch {
            '"' => out.push_str("\\\""),
            '\\' => out.push_str("\\\\"),
            '\n' => out.push_str("\\n"),
            '\r' => out.push_str("\\r"),
            '\t' => out.push_str("\\t"),
            c if (c as u32) < 0x20 => {
                let _ = write!(out, "\\u{:04x}", c as u32);
            }
            c => out.push(c),
        }
    }
    out.push('"');
}

fn ser(ts: &TokenStream, out: &mut String) {
    out.push('[');
    let mut first = true;
    for tt in ts.clone() {
        if !first {
            out.push(',');
        }
        first = false;
        match tt {
            TokenTree::Group(g) => {
                let d = match g.delimiter() {
                    Delimiter::Parenthesis => "(",
                    Delimiter::Brace => "{",
                    Delimiter::Bracket => "[",
                    Delimiter::None => "",
                };
                out.push_str("{\"g\":");
                esc(d, out);
                out.push_str(",\"s\":");
                ser(&g.stream(), out);
                out.push('}');
            }
            TokenTree::Ident(i) => {
                out.push_str("{\"i\":");
                esc(&i.to_string(), out);
                out.push('}');
            }
            TokenTree::Punct(p) => {
                out.push_str("{\"p\":");
                esc(&p.as_char().to_string(), out);
                if p.spacing() == Spacing::Joint {
                    out.push_str(",\"j\":1");
                }
                out.push('}');
            }
            TokenTree::Literal(l) => {
                out.push_str("{\"l\":");
                esc(&l.to_string(), out);
                out.push('}');
            }
        }
    }
    out.push(']');
}

fn strip_vp(ts: TokenStream) -> TokenStream {
    let mut out: Vec<TokenTree> = Vec::new();
    let mut it = ts.into_iter().peekable();
    while let Some(tt) = it.next() {
        match tt {
            TokenTree::Punct(ref p) if p.as_char() == '#' => {
                let is_vp = match it.peek() {
                    Some(TokenTree::Group(g)) if g.delimiter() == Delimiter::Bracket => {
                        matches!(g.stream().into_iter().next(), Some(TokenTree::Ident(i)) if i.to_string() == "vp")
                    }
                    _ => false,
                };
                if is_vp {
                    it.next();
                } else {
                    out.push(tt);
                }
            }
            TokenTree::Group(g) => {
                let mut ng = Group::new(g.delimiter(), strip_vp(g.stream()));
                ng.set_span(g.span());
                out.push(TokenTree::Group(ng));
            }
            other => out.push(other),
        }
    }
    out.into_iter().collect()
}

#[proc_macro_attribute]
pub fn mark(attr: TokenStream, item: TokenStream) -> TokenStream {
    if let Some(dir) = std::env::var_os("VATTR_LOG") {
        let span = proc_macro::Span::call_site();
        let mut line = String::new();
        line.push_str("{\"file\":");
        esc(&span.file(), &mut line);
        let _ = write!(line, ",\"line\":{},\"attr\":", span.line());
        ser(&attr, &mut line);
        line.push_str(",\"item\":");
        ser(&item, &mut line);
        line.push_str("}\n");
        let mut path = std::path::PathBuf::from(dir);
        let _ = std::fs::create_dir_all(&path);
        path.push(format!("vattr-{}.jsonl", std::process::id()));
        if let Ok(mut f) = std::fs::OpenOptions::new().create(true).append(true).open(&path) {
            let _ = f.write_all(line.as_bytes());
        }
    }
    strip_vp(item)
}

/// The same witness under the name of a macro entrait knows by its last path segment (`automock`): an attribute that entrait
/// classifies has to stay on the user's item just like one it does not know.
#[proc_macro_attribute]
pub fn automock(attr: TokenStream, item: TokenStream) -> TokenStream {
    mark(attr, item)
}
