//! vrt - client-side monitor runtime linked into every generated client crate.
//!
//! * `trace`: thread-local call-event log written from inside generated user fn bodies.
//! * probes: `implements!`, `declared_send!`, `exists_type!`, `visible_trait!` turn
//!   type-check-time facts into run-time booleans without failing compilation.
//! * `Counting`: global allocator with a thread-local allocation counter.
//! * `block_on` / `yield_once`: poll-counting executor.
//! * `run_case` / `Ctx`: per-case isolation (catch_unwind) and JSON-lines output.
#![allow(clippy::all)]

use std::cell::{Cell, RefCell};
use std::fmt::Debug;
use std::fmt::Write as _;

pub use implementation::Impl;

// ---------------------------------------------------------------------------
// trace
// ---------------------------------------------------------------------------

#[derive(Clone, Debug)]
pub struct Event {
    pub fn_id: String,
    pub type_name: String,
    pub addr: u64,
    pub args: Vec<String>,
}

thread_local! {
    static EVENTS: RefCell<Vec<Event>> = const { RefCell::new(Vec::new()) };
    static TRACE_ON: Cell<bool> = const { Cell::new(true) };
    static DEPTH_GUARD: Cell<u32> = const { Cell::new(0) };
}

/// Maximum number of events per phase; a runaway recursion (e.g. a delegating
/// method that calls itself) is turned into a panic of the case instead of a
/// stack overflow that would kill the whole process.
pub const MAX_EVENTS: usize = 10_000;

pub fn trace_enabled(on: bool) {
    TRACE_ON.with(|c| c.set(on));
}

/// Record one call event. Called as the first statement of generated user fns.
pub fn enter(fn_id: &str, type_name: &str, addr: u64, args: &[&dyn Debug]) {
    if !TRACE_ON.with(|c| c.get()) {
        return;
    }
    let ev = Event {
        fn_id: fn_id.to_string(),
        type_name: type_name.to_string(),
        addr,
        args: args.iter().map(|a| format!("{:?}", a)).collect(),
    };
    EVENTS.with(|e| {
        let mut e = e.borrow_mut();
        if e.len() >= MAX_EVENTS {
            drop(e);
            panic!("vrt: event limit exceeded (runaway recursion?)");
        }
        e.push(ev);
    });
}

/// Recursion guard usable from hand-written forwarding impls.
pub fn recursion_guard<R>(f: impl FnOnce() -> R) -> R {
    let d = DEPTH_GUARD.with(|c| {
        let v = c.get() + 1;
        c.set(v);
        v
    });
    if d > 200 {
        DEPTH_GUARD.with(|c| c.set(0));
        panic!("vrt: recursion depth exceeded");
    }
    let r = f();
    DEPTH_GUARD.with(|c| c.set(c.get() - 1));
    r
}

pub fn take_events() -> Vec<Event> {
    EVENTS.with(|e| std::mem::take(&mut *e.borrow_mut()))
}

pub fn tn<T: ?::core::marker::Sized>(_: &T) -> &'static str {
    std::any::type_name::<T>()
}

pub fn tn_of<T: ?::core::marker::Sized>() -> &'static str {
    std::any::type_name::<T>()
}

pub fn addr<T: ?::core::marker::Sized>(t: &T) -> u64 {
    t as *const T as *const () as usize as u64
}

/// Tag carried by application types, so that by-value dependencies can be identified.
pub trait Tag {
    fn tag(&self) -> u64;
}

impl<T: Tag> Tag for Impl<T> {
    fn tag(&self) -> u64 {
        (**self).tag()
    }
}

impl<T: Tag + ?::core::marker::Sized> Tag for &T {
    fn tag(&self) -> u64 {
        (**self).tag()
    }
}

// ---------------------------------------------------------------------------
// executor
// ---------------------------------------------------------------------------

thread_local! {
    static POLLS: Cell<u64> = const { Cell::new(0) };
}

pub fn polls() -> u64 {
    POLLS.with(|c| c.get())
}

pub fn reset_polls() {
    POLLS.with(|c| c.set(0));
}

pub struct YieldOnce(bool);

impl core::future::Future for YieldOnce {
    type Output = ();
    fn poll(
        mut self: core::pin::Pin<&mut Self>,
        cx: &mut core::task::Context<'_>,
    ) -> core::task::Poll<()> {
        if self.0 {
            core::task::Poll::Ready(())
        } else {
            self.0 = true;
            cx.waker().wake_by_ref();
            core::task::Poll::Pending
        }
    }
}

pub fn yield_once() -> YieldOnce {
    YieldOnce(false)
}

fn noop_raw_waker() -> core::task::RawWaker {
    fn no_op(_: *const ()) {}
    fn clone(_: *const ()) -> core::task::RawWaker {
        noop_raw_waker()
    }
    static VTABLE: core::task::RawWakerVTable =
        core::task::RawWakerVTable::new(clone, no_op, no_op, no_op);
    core::task::RawWaker::new(core::ptr::null(), &VTABLE)
}

/// Drives a future on the stack (no allocation), counting polls.
pub fn block_on<F: core::future::Future>(fut: F) -> F::Output {
    let waker = unsafe { core::task::Waker::from_raw(noop_raw_waker()) };
    let mut cx = core::task::Context::from_waker(&waker);
    let mut fut = core::pin::pin!(fut);
    let mut n = 0u64;
    loop {
        n += 1;
        POLLS.with(|c| c.set(c.get() + 1));
        if let core::task::Poll::Ready(v) = fut.as_mut().poll(&mut cx) {
            return v;
        }
        if n > 100_000 {
            panic!("vrt: future did not complete within poll budget");
        }
    }
}

/// Pin the output type of a future by ascription: `let _: T = out_of(&fut)` is not
/// possible without running, so this returns a PhantomData of the output type.
pub fn output_type_name<F: core::future::Future>(_: &F) -> &'static str {
    std::any::type_name::<F::Output>()
}

// ---------------------------------------------------------------------------
// counting allocator
// ---------------------------------------------------------------------------

pub struct Counting;

thread_local! {
    static ALLOCS: Cell<u64> = const { Cell::new(0) };
    static ALLOC_BYTES: Cell<u64> = const { Cell::new(0) };
}

unsafe impl std::alloc::GlobalAlloc for Counting {
    unsafe fn alloc(&self, layout: std::alloc::Layout) -> *mut u8 {
        let _ = ALLOCS.try_with(|c| c.set(c.get() + 1));
        let _ = ALLOC_BYTES.try_with(|c| c.set(c.get() + layout.size() as u64));
        std::alloc::System.alloc(layout)
    }
    unsafe fn dealloc(&self, ptr: *mut u8, layout: std::alloc::Layout) {
        std::alloc::System.dealloc(ptr, layout)
    }
    unsafe fn realloc(&self, ptr: *mut u8, layout: std::alloc::Layout, new_size: usize) -> *mut u8 {
        let _ = ALLOCS.try_with(|c| c.set(c.get() + 1));
        let _ = ALLOC_BYTES.try_with(|c| c.set(c.get() + new_size as u64));
        std::alloc::System.realloc(ptr, layout, new_size)
    }
    unsafe fn alloc_zeroed(&self, layout: std::alloc::Layout) -> *mut u8 {
        let _ = ALLOCS.try_with(|c| c.set(c.get() + 1));
        let _ = ALLOC_BYTES.try_with(|c| c.set(c.get() + layout.size() as u64));
        std::alloc::System.alloc_zeroed(layout)
    }
}

#[global_allocator]
static GLOBAL: Counting = Counting;

pub fn allocs() -> u64 {
    ALLOCS.with(|c| c.get())
}

pub fn alloc_bytes() -> u64 {
    ALLOC_BYTES.with(|c| c.get())
}

// ---------------------------------------------------------------------------
// probes
// ---------------------------------------------------------------------------

/// `implements!(Type: Bound + Bound2)` -> bool, without failing compilation.
/// Inherent methods win over trait methods during method probing.
#[macro_export]
macro_rules! implements {
    ($t:ty : $($b:tt)+) => {{
        #[allow(dead_code, non_camel_case_types)]
        struct __P<__PT: ?::core::marker::Sized>(::core::marker::PhantomData<__PT>);
        #[allow(dead_code, non_camel_case_types)]
        trait __Fb { fn __vrt_get(&self) -> bool { false } }
        impl<__PT: ?::core::marker::Sized> __Fb for __P<__PT> {}
        #[allow(dead_code)]
        impl<__PT: ?::core::marker::Sized + $($b)+> __P<__PT> { fn __vrt_get(&self) -> bool { true } }
        __P::<$t>(::core::marker::PhantomData).__vrt_get()
    }};
}

/// `value_is!(expr_ref : Bound)` -> bool for the *type of the value behind the reference*,
/// as known in the current (possibly generic) context.
#[macro_export]
macro_rules! value_is {
    ($v:expr ; $($b:tt)+) => {{
        #[allow(dead_code, non_camel_case_types)]
        struct __PV<'__a, __PT: ?::core::marker::Sized>(&'__a __PT);
        #[allow(dead_code, non_camel_case_types)]
        trait __Fb { fn __vrt_get(&self) -> bool { false } }
        impl<'__a, __PT: ?::core::marker::Sized> __Fb for __PV<'__a, __PT> {}
        #[allow(dead_code)]
        impl<'__a, __PT: ?::core::marker::Sized + $($b)+> __PV<'__a, __PT> { fn __vrt_get(&self) -> bool { true } }
        __PV($v).__vrt_get()
    }};
}

/// `exists_type!(scope::path, Name)` -> type_name of whatever `Name` resolves to
/// with `use scope::path::*;` in effect, with a local fallback `struct Name;`.
/// The glob import shadows nothing that is declared in the same block, so the
/// fallback lives in the *outer* block and the glob in the *inner* one.
#[macro_export]
macro_rules! exists_type {
    ($($scope:ident)::+ , $name:ident) => {{
        #[allow(dead_code, non_camel_case_types)]
        struct $name;
        {
            #[allow(unused_imports)]
            use $($scope)::+::*;
            ::std::any::type_name::<$name>()
        }
    }};
}

/// `visible_trait!(scope::path, Name)` -> bool: can trait `Name` be named through
/// `use scope::path::*` from here?
#[macro_export]
macro_rules! visible_trait {
    ($($scope:ident)::+ , $name:ident) => {{
        // not Sync / not Send: entrait's blanket impls (`EntraitT: Sync + 'static`) must not apply to the marker
        #[allow(dead_code, non_camel_case_types)]
        struct __M(::core::marker::PhantomData<*const ()>);
        #[allow(dead_code, non_camel_case_types)]
        trait $name { fn __vrt_is_fallback(&self) -> bool { true } }
        impl $name for __M {}
        {
            #[allow(unused_imports)]
            use $($scope)::+::*;
            // if the glob brought in a trait `Name`, then `__M: Name` refers to that
            // trait and does not hold; otherwise it refers to the fallback.
            !$crate::implements!(__M: $name)
        }
    }};
    // traits with one type parameter (e.g. the delegation-target trait `TraitImpl<T>`)
    ($($scope:ident)::+ , $name:ident, generic) => {{
        #[allow(dead_code, non_camel_case_types)]
        struct __M(::core::marker::PhantomData<*const ()>);
        #[allow(dead_code, non_camel_case_types)]
        trait $name<__G> { fn __vrt_is_fallback(&self) -> bool { true } }
        impl $name<()> for __M {}
        {
            #[allow(unused_imports)]
            use $($scope)::+::*;
            !$crate::implements!(__M: $name<()>)
        }
    }};
}

// ---------------------------------------------------------------------------
// case runner and JSON output
// ---------------------------------------------------------------------------

fn esc(s: &str, out: &mut String) {
    out.push('"');
    for ch in s.chars() {
        match ch {
            '"' => out.push_str("\\\""),
            '\\' => out.push_str("\\\\"),
            '\n' => out.push_str("\\n"),
            '\r' => out.push_str("\\r"),
            '\t' => out.push_str("\\t"),
            c if (c as u32) < 0x20 => {
                let _ = write!(out, "\\u{:04x}", c as u32);
            }
            c => out.push(c),
        }
    }
    out.push('"');
}

#[derive(Default)]
struct Phase {
    label: String,
    events: Vec<Event>,
    result: Option<String>,
    kv: Vec<(String, String)>,
}

#[derive(Default)]
pub struct Ctx {
    phases: Vec<Phase>,
    facts: Vec<(String, String)>,
}

impl Ctx {
    fn flush(&mut self) {
        let evs = take_events();
        if let Some(p) = self.phases.last_mut() {
            p.events.extend(evs);
        }
    }

    /// Start a phase: everything traced until the next `phase`/end belongs to it.
    pub fn phase(&mut self, label: &str) {
        self.flush();
        reset_polls();
        self.phases.push(Phase {
            label: label.to_string(),
            ..Default::default()
        });
    }

    /// Record the (Debug) result of the current phase.
    pub fn result(&mut self, v: &dyn Debug) {
        self.flush();
        if let Some(p) = self.phases.last_mut() {
            p.result = Some(format!("{:?}", v));
        }
    }

    /// Record an extra key/value on the current phase.
    pub fn kv(&mut self, k: &str, v: impl std::fmt::Display) {
        self.flush();
        if let Some(p) = self.phases.last_mut() {
            p.kv.push((k.to_string(), v.to_string()));
        }
    }

    /// Record polls seen since the phase began.
    pub fn polls(&mut self) {
        let n = polls();
        self.kv("polls", n);
    }

    /// Record a case-level fact (probe answers).
    pub fn fact(&mut self, k: &str, v: impl std::fmt::Display) {
        self.facts.push((k.to_string(), v.to_string()));
    }

    fn to_json(&self, case: &str, panic: Option<&str>) -> String {
        let mut s = String::new();
        s.push_str("{\"case\":");
        esc(case, &mut s);
        s.push_str(",\"phases\":[");
        for (i, p) in self.phases.iter().enumerate() {
            if i > 0 {
                s.push(',');
            }
            s.push_str("{\"label\":");
            esc(&p.label, &mut s);
            s.push_str(",\"events\":[");
            for (j, e) in p.events.iter().enumerate() {
                if j > 0 {
                    s.push(',');
                }
                s.push_str("{\"fn\":");
                esc(&e.fn_id, &mut s);
                s.push_str(",\"tn\":");
                esc(&e.type_name, &mut s);
                let _ = write!(s, ",\"addr\":{},\"args\":[", e.addr);
                for (k, a) in e.args.iter().enumerate() {
                    if k > 0 {
                        s.push(',');
                    }
                    esc(a, &mut s);
                }
                s.push_str("]}");
            }
            s.push_str("],\"result\":");
            match &p.result {
                Some(r) => esc(r, &mut s),
                None => s.push_str("null"),
            }
            s.push_str(",\"kv\":{");
            for (j, (k, v)) in p.kv.iter().enumerate() {
                if j > 0 {
                    s.push(',');
                }
                esc(k, &mut s);
                s.push(':');
                esc(v, &mut s);
            }
            s.push_str("}}");
        }
        s.push_str("],\"facts\":{");
        for (j, (k, v)) in self.facts.iter().enumerate() {
            if j > 0 {
                s.push(',');
            }
            esc(k, &mut s);
            s.push(':');
            esc(v, &mut s);
        }
        s.push_str("},\"panic\":");
        match panic {
            Some(p) => esc(p, &mut s),
            None => s.push_str("null"),
        }
        s.push_str("}\n");
        s
    }
}

thread_local! {
    static OUT: RefCell<String> = const { RefCell::new(String::new()) };
    static CUR: RefCell<Option<Ctx>> = const { RefCell::new(None) };
}

/// Access the context of the running case.
pub fn with_ctx<R>(f: impl FnOnce(&mut Ctx) -> R) -> R {
    CUR.with(|c| f(c.borrow_mut().as_mut().expect("vrt: no running case")))
}

pub fn phase(label: &str) {
    with_ctx(|c| c.phase(label))
}
pub fn result(v: &dyn Debug) {
    with_ctx(|c| c.result(v))
}
pub fn kv(k: &str, v: impl std::fmt::Display) {
    with_ctx(|c| c.kv(k, v))
}
pub fn fact(k: &str, v: impl std::fmt::Display) {
    with_ctx(|c| c.fact(k, v))
}
pub fn record_polls() {
    with_ctx(|c| c.polls())
}

/// Run one case in isolation; a panic becomes a `panic` field of the case's record.
pub fn run_case(name: &str, f: fn()) {
    let _ = take_events();
    trace_enabled(true);
    CUR.with(|c| *c.borrow_mut() = Some(Ctx::default()));
    let res = std::panic::catch_unwind(f);
    let mut ctx = CUR.with(|c| c.borrow_mut().take()).unwrap_or_default();
    ctx.flush();
    let msg = match &res {
        Ok(()) => None,
        Err(p) => Some(
            p.downcast_ref::<&str>()
                .map(|s| s.to_string())
                .or_else(|| p.downcast_ref::<String>().cloned())
                .unwrap_or_else(|| "<non-string panic>".to_string()),
        ),
    };
    let line = ctx.to_json(name, msg.as_deref());
    OUT.with(|o| o.borrow_mut().push_str(&line));
    // written immediately, so that a later crash of the process cannot lose this record
    finish();
}

/// Write everything recorded so far to `$VRT_OUT` (append) or stdout.
pub fn finish() {
    use std::io::Write as _;
    let s = OUT.with(|o| std::mem::take(&mut *o.borrow_mut()));
    match std::env::var_os("VRT_OUT") {
        Some(p) => {
            let mut f = std::fs::OpenOptions::new()
                .create(true)
                .append(true)
                .open(p)
                .expect("vrt: cannot open VRT_OUT");
            f.write_all(s.as_bytes()).expect("vrt: write");
        }
        None => {
            let _ = std::io::stdout().write_all(s.as_bytes());
        }
    }
}

/// Silence the default panic hook (expected panics would otherwise flood stderr).
pub fn quiet_panics() {
    std::panic::set_hook(Box::new(|_| {}));
}

/// Only cases whose name passes the optional `$VRT_ONLY` (comma list) filter run.
pub fn selected(name: &str) -> bool {
    match std::env::var("VRT_ONLY") {
        Ok(v) if !v.is_empty() => v.split(',').any(|x| x == name),
        _ => true,
    }
}

/// Something to borrow from a dependency.
/// A concrete dependency type that client cases reach through an absolute path (`::vrt::ExtCfg`).
#[derive(Clone, Copy, Debug)]
pub struct ExtCfg {
    pub name: &'static str,
    pub id: u32,
}

pub trait HasName {
    fn name(&self) -> &str;
}

impl<T: HasName> HasName for Impl<T> {
    fn name(&self) -> &str {
        (**self).name()
    }
}
