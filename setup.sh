#!/bin/sh
# Offline setup: pre-build the dependency graph (entrait + macros with the hook, unimock,
# mockall, async-trait, vrt, vattr) into the shared target dir so checks start warm.
set -e
cd "$(dirname "$0")"
mkdir -p work evidence
python3 - <<'PY'
import sys
sys.path.insert(0, '.')
from framework import core, selftest
for unimock in (False, True):
    ws = core.Workspace("setup", "on" if unimock else "off", unimock=unimock,
                        deps=("mockall", "async-trait") + (("unimock",) if unimock else ()), vattr=True, nshards=1)
    ws.add(selftest.case("selftest_setup"))
    ws.write()
    b = ws.build()
    ws.run(b["exes"])
    selftest.verify(ws.cases[0])
    ws.build(test=True)
print("setup ok")
PY
