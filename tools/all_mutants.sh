#!/bin/sh
# Runs every seeded change against the check of its property (quick tier); prints one line each.
bak=$(mktemp -d); cp -r /verif/evidence $bak/
trap 'git -C /repo checkout -- . ; rm -rf /verif/evidence; cp -r $bak/evidence /verif/evidence; rm -rf $bak' EXIT INT TERM
for d in /verif/seeded/*/; do
  name=$(basename $d)
  prop=$(python3 -c "import json;print(json.load(open('$d/meta.json'))['property'])")
  if ! git -C /repo apply --check $d/patch.diff 2>/dev/null; then echo "$name $prop PATCH-DOES-NOT-APPLY"; continue; fi
  git -C /repo apply $d/patch.diff
  out=$(./check $prop --tier quick 2>&1); rc=$?
  git -C /repo checkout -- .
  echo "$name $prop rc=$rc violations=$(echo "$out" | grep -c '^VIOLATION')"
done
