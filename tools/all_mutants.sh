#!/bin/sh
# Runs every seeded change against the check of its property (quick tier); prints one line each.
# Works on ${VERIF_REPO:-/repo} (inside `vp run --with-repo` pass VERIF_REPO=$VP_RUN_REPO: the snapshot is patched, /repo is untouched).
R=${VERIF_REPO:-/repo}
V=$(cd "$(dirname "$0")/.." && pwd)
bak=$(mktemp -d); cp -r $V/evidence $bak/
trap 'git -C $R checkout -- . ; rm -rf $V/evidence; cp -r $bak/evidence $V/evidence; rm -rf $bak' EXIT INT TERM
cd $V
for d in $V/seeded/*/; do
  name=$(basename $d)
  prop=$(python3 -c "import json;print(json.load(open('$d/meta.json'))['property'])")
  if ! git -C $R apply --check $d/patch.diff 2>/dev/null; then echo "$name $prop PATCH-DOES-NOT-APPLY"; continue; fi
  git -C $R apply $d/patch.diff
  out=$(VERIF_REPO=$R ./check $prop --tier quick 2>&1); rc=$?
  git -C $R checkout -- .
  echo "$name $prop rc=$rc violations=$(echo "$out" | grep -c '^VIOLATION')"
done
