#!/bin/sh
# tools/process_mutant.sh <worktree-id e.g. mut2_C03> <seeded name> <checks...>
wt=/tmp/$1; name=$2; shift 2
echo "##### $name"
tools/confirm_mutant.sh $wt 2>&1 | grep -E "passed|rc=|---" | tr '\n' ' '; echo
d=/verif/seeded/$name; mkdir -p $d
cp $wt/MUTANT/patch.diff $d/patch.diff; rm -rf $d/demo; cp -r $wt/MUTANT/demo $d/demo; rm -rf $d/demo/target; cp $wt/MUTANT/README.md $d/README.agent.md
tools/try_mutant.sh $d/patch.diff quick "$@" 2>&1 | grep -E "==| x " | head -12
