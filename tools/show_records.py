#!/usr/bin/env python3
"""tools/show_records.py <work subdir, e.g. c16/dump_x0> <case id>: print the recorded expansions of one case"""
import sys, json, glob
sys.path.insert(0, "/verif")
from framework import tok
d, cid = sys.argv[1], sys.argv[2]
for f in glob.glob("/verif/work/%s/**/*.jsonl" % d, recursive=True):
    beg = {}
    for l in open(f):
        if cid not in l and '"ev":"end"' not in l:
            continue
        r = json.loads(l)
        if r["ev"] == "begin" and cid in r.get("file", ""):
            beg[(r["pid"], r["seq"])] = r
        elif r["ev"] != "begin" and (r["pid"], r["seq"]) in beg:
            b = beg[(r["pid"], r["seq"])]
            print("==", b["variant"], "(", tok.render(b["attr"]), ") line", b["line"], r["ev"])
            print(" IN ", tok.render(b["input"], 1500))
            print(" OUT", tok.render(r.get("output", []), 6000))
