#!/usr/bin/env python3
"""tools/make_prompts.py <round tag, e.g. mut11> [Cnn ...]: write /tmp/<tag>_prompt_Cnn.txt for the seeding agents.
A prompt = tools/mutant_prompt.txt (WORKTREE -> /tmp/<tag>_Cnn, PROPERTY_TEXT -> the property as given in properties.jsonl)
+ tools/mutant_prompt_earlier.txt + one line per change already seeded for that property (name + needs_to_manifest).
Nothing from /verif other than the property text and those one-line ideas reaches the agents."""
import glob, json, os, re, sys
tag = sys.argv[1]
want = sys.argv[2:]
tmpl = open("/verif/tools/mutant_prompt.txt").read()
earlier = open("/verif/tools/mutant_prompt_earlier.txt").read()
for line in open("/verif/properties.jsonl"):
    p = json.loads(line)
    pid = p["id"]
    if want and pid not in want:
        continue
    text = "%s - %s\n\n%s\n\nQuantifier: %s\n\nWhy the existing tests cannot settle it: %s\n\nAnchors in the code: %s" % (
        pid, p["title"], p["statement"], p["quantifier"]["text"], p["why_tests_cant"], json.dumps(p["anchors"]))
    wt = "/tmp/%s_%s" % (tag, pid)
    body = tmpl.replace("WORKTREE", wt).replace("PROPERTY_TEXT", text)
    items = []
    for d in sorted(glob.glob("/verif/seeded/%s*/meta.json" % pid)):
        m = json.load(open(d))
        name = re.sub(r"^C\d\d[a-z]?-", "", os.path.basename(os.path.dirname(d))).replace("-", " ")
        items.append("  - %s (needs: %s)" % (name, m["needs_to_manifest"]))
    open("/tmp/%s_prompt_%s.txt" % (tag, pid), "w").write(body.rstrip("\n") + "\n\n\n" + earlier + "\n".join(items) + "\n")
    print(pid, len(items))
