#!/bin/sh
# tools/keep_mutant.sh <id> <name> : copy a confirmed seeded change from /tmp/mut_<id> into /verif/seeded/<name>/
id=$1; name=$2
d=/verif/seeded/$name
mkdir -p $d
cp /tmp/mut_$id/MUTANT/patch.diff $d/patch.diff
rm -rf $d/demo; cp -r /tmp/mut_$id/MUTANT/demo $d/demo; rm -rf $d/demo/target
cp /tmp/mut_$id/MUTANT/README.md $d/README.agent.md
echo "kept $d"
