#!/usr/bin/env python3
"""Sanity mutants from DESIGN §4 ("Breaks it"): apply to /repo, run the named quick checks, restore.
usage: tools/own_mutants.py [name ...]"""
import subprocess, sys, os
R = "/repo/entrait_macros/src/"
M = {
 "c01_reverse_args": (R+"fn_delegation_codegen.rs", "#opt_self_scoping #fn_ident(#opt_self_comma #(#arguments),*) #opt_dot_await",
                      "#opt_self_scoping #fn_ident(#opt_self_comma #(#rev_arguments),*) #opt_dot_await", ["C01", "C16", "C11"],
                      ("let opt_dot_await = trait_fn.opt_dot_await(span);", "let opt_dot_await = trait_fn.opt_dot_await(span);\n        let rev_arguments: Vec<_> = { let mut v: Vec<_> = arguments.collect(); if v.len() > 3 { v.swap(1, 2); } v };")),
 "c02_drop_fn_attrs_after_first": (R+"entrait_fn/mod.rs", "#(#fn_attrs)* #fn_vis #fn_sig #fn_body\n        #trait_def",
                      "#(#kept_attrs)* #fn_vis #fn_sig #fn_body\n        #trait_def", ["C02", "C18"],
                      ("let out = quote! {", "let kept_attrs: Vec<_> = fn_attrs.iter().filter(|a| !a.path().is_ident(\"must_use\")).collect();\n    let out = quote! {")),
 "c10_ignore_unimock_false": (R+"trait_codegen.rs", "let opt_unimock_attr = match self.opts.default_option(self.opts.unimock, false) {",
                      "let opt_unimock_attr = match self.opts.default_option(self.opts.unimock.map(|o| crate::opt::SpanOpt(true, o.1)), false) {", ["C10", "C17"], None),
 "c12_always_send": (R+"trait_codegen.rs", "if opts.future_send().0 {", "if opts.future_send().0 || sig.inputs.len() > 2 {", ["C12"], None),
 "c13_mod_reexport_pub": (R+"entrait_fn/mod.rs", "#trait_vis use #mod_ident::#trait_ident;", "pub use #mod_ident::#trait_ident;", ["C13", "C02", "C08"], None),
 "c14_box_async": (R+"fn_delegation_codegen.rs", "#opt_self_scoping #fn_ident(#opt_self_comma #(#arguments),*) #opt_dot_await\n            }",
                   "#boxed\n            }", ["C14", "C01"],
                   ("let opt_dot_await = trait_fn.opt_dot_await(span);", "let opt_dot_await = trait_fn.opt_dot_await(span);\n        let args2: Vec<_> = arguments.collect();\n        let boxed = if trait_fn.originally_async { quote! { ::std::boxed::Box::pin(async move { #opt_self_scoping #fn_ident(#opt_self_comma #(#args2),*).await }).await } } else { quote! { #opt_self_scoping #fn_ident(#opt_self_comma #(#args2),*) } };")),
 "c20_static_counter": (R+"signature/fn_params.rs", "let new_ident_string = generate_ident(index, 0, &mut taken_idents);",
                        "let new_ident_string = generate_ident(index + (COUNTER.fetch_add(1, std::sync::atomic::Ordering::Relaxed) / 64), 0, &mut taken_idents);", ["C20"],
                        ("fn autogenerate_for_non_idents(sig: &mut syn::Signature) {", "static COUNTER: std::sync::atomic::AtomicUsize = std::sync::atomic::AtomicUsize::new(0);\nfn autogenerate_for_non_idents(sig: &mut syn::Signature) {")),
 "c08_skip_pub_crate": (R+"input.rs", "if let syn::Visibility::Inherited = vis {\n        // 'private' functions aren't interesting\n        return false;\n    }",
                        "if let syn::Visibility::Inherited = vis {\n        // 'private' functions aren't interesting\n        return false;\n    }\n    if let syn::Visibility::Restricted(r) = vis { if r.in_token.is_some() { return false; } }", ["C08"], None),
 "c07_first_method_only": (R+"entrait_trait/mod.rs", "<#impl_t::Target as #impl_trait_ident<#impl_t>>::#fn_ident(self, #(#arguments),*)",
                        "<#impl_t::Target as #impl_trait_ident<#impl_t>>::#fn_ident(self.as_ref2(), #(#arguments),*)", [], None),
}
def run(name):
    f, old, new, checks, extra = M[name]
    s = open(f).read()
    assert old in s, name
    t = s.replace(old, new)
    if extra:
        assert extra[0] in t, name + " extra"
        t = t.replace(extra[0], extra[1], 1)
    open(f, "w").write(t)
    try:
        b = subprocess.run(["cargo", "build", "-q", "-p", "entrait_macros", "--offline"], cwd="/repo", stdout=subprocess.PIPE, stderr=subprocess.PIPE, text=True)
        if b.returncode != 0:
            print(name, "DOES NOT BUILD", b.stderr[-600:]); return
        t = subprocess.run("cargo test --workspace --no-fail-fast --offline 2>&1 | grep -E '^test result' | awk '{p+=$4; f+=$6} END {print p\" passed \"f\" failed\"}'", cwd="/repo", shell=True, stdout=subprocess.PIPE, text=True)
        print("##", name, "| repo tests:", t.stdout.strip())
        for c in checks:
            p = subprocess.run(["./check", c, "--tier", "quick"], cwd="/verif", stdout=subprocess.PIPE, stderr=subprocess.PIPE, text=True)
            v = p.stdout.count("VIOLATION")
            keys = [l.strip() for l in p.stderr.split("\n") if " x " in l][:3]
            print("   %s rc=%d violations=%d %s" % (c, p.returncode, v, keys))
    finally:
        subprocess.run(["git", "-C", "/repo", "checkout", "--", "."])
for n in (sys.argv[1:] or [k for k in M if M[k][3]]):
    run(n)
