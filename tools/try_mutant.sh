#!/bin/sh
# tools/try_mutant.sh <patch.diff> <tier> <check ids...>
# Applies a seeded change to /repo, runs the given checks, always restores /repo afterwards.
patch=$1; tier=$2; shift 2
if [ -n "$(git -C /repo status --porcelain --untracked-files=no)" ]; then echo "/repo not clean"; exit 3; fi
git -C /repo apply "$(realpath "$patch")" || { echo "patch does not apply"; exit 3; }
bak=$(mktemp -d); cp -r /verif/evidence $bak/
trap 'git -C /repo checkout -- . ; rm -rf /verif/evidence; cp -r $bak/evidence /verif/evidence; rm -rf $bak; echo "[/repo and evidence restored]"' EXIT INT TERM
for c in "$@"; do
  out=$(./check $c --tier $tier 2>&1); rc=$?
  echo "== $c ($tier) rc=$rc: $(echo "$out" | grep -cE '^VIOLATION') violations; $(echo "$out" | grep -E '^\[C|INCONCLUSIVE' | tail -1)"
  echo "$out" | grep -E "^ +[0-9]+ x " | head -8
done
