#!/bin/sh
# tools/cross_mutants.sh <seeded name>...: runs each given seeded change against EVERY check (quick tier; C16/C20 only with CROSS_ALL=1)
# and prints one line per (change, check). Purpose: find checks that end INCONCLUSIVE (rc=2: the harness could not read what the
# changed macro emitted) where they should decide. Works on ${VERIF_REPO:-/repo} like tools/all_mutants.sh.
R=${VERIF_REPO:-/repo}
V=$(cd "$(dirname "$0")/.." && pwd)
bak=$(mktemp -d); cp -r $V/evidence $bak/
trap 'git -C $R checkout -- . ; rm -rf $V/evidence; cp -r $bak/evidence $V/evidence; rm -rf $bak' EXIT INT TERM
cd $V
checks="C01 C02 C03 C04 C05 C06 C07 C08 C09 C10 C11 C12 C13 C14 C15 C17 C18 C19"
[ -n "$CROSS_ALL" ] && checks="$checks C16 C20"
for name in "$@"; do
  d=$V/seeded/$name
  if ! git -C $R apply --check $d/patch.diff 2>/dev/null; then echo "$name PATCH-DOES-NOT-APPLY"; continue; fi
  git -C $R apply $d/patch.diff
  for c in $checks; do
    out=$(VERIF_REPO=$R ./check $c --tier quick 2>&1); rc=$?
    echo "$name $c rc=$rc violations=$(echo "$out" | grep -c '^VIOLATION') $(echo "$out" | grep -E 'INCONCLUSIVE' | head -1 | cut -c1-200)"
    [ $rc = 2 ] && echo "$out" | grep -A14 Traceback | head -30
  done
  git -C $R checkout -- .
done
