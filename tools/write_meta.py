#!/usr/bin/env python3
"""tools/write_meta.py <seeded dir name> <property> <needs> <caught_by> <notes>"""
import json, sys, subprocess
name, prop, needs, caught, notes = sys.argv[1:6]
head = subprocess.run(["git", "-C", "/repo", "log", "--format=%h", "-1"], stdout=subprocess.PIPE, text=True).stdout.strip()
meta = {
    "property": prop,
    "breaks": open("/verif/seeded/%s/README.agent.md" % name).read()[:1500] if __import__("os").path.exists("/verif/seeded/%s/README.agent.md" % name) else "",
    "needs_to_manifest": needs,
    "origin": "written by an independent sub-agent that saw only the property text and a scratch worktree of /repo" if not name.startswith("own-") else "own sanity change",
    "confirmed_by_me": "tools/confirm_mutant.sh <worktree>: existing suite 40 passed / 0 failed with the change; demo fails with the change (see demo/), passes on the unchanged tree",
    "checks_run": "tools/try_mutant.sh seeded/%s/patch.diff quick %s" % (name, caught.split(";")[0]),
    "caught_by": caught,
    "notes": notes,
    "repo_head_when_recorded": head,
}
json.dump(meta, open("/verif/seeded/%s/meta.json" % name, "w"), indent=1)
print("ok", name)
