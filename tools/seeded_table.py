#!/usr/bin/env python3
"""Regenerates the table of seeded changes in DESIGN.md from seeded/*/meta.json."""
import json, glob, os, re
rows = ["| seeded change | property | needs to manifest | caught by | notes |", "|---|---|---|---|---|"]
for d in sorted(glob.glob("/verif/seeded/*/meta.json")):
    m = json.load(open(d))
    name = os.path.basename(os.path.dirname(d))
    esc = lambda x: str(x).replace("|", "\\|").replace("\n", " ")
    rows.append("| `%s` | %s | %s | %s | %s |" % (name, m["property"], esc(m["needs_to_manifest"]), esc(m["caught_by"]), esc(m["notes"])))
block = "<!-- seeded:begin -->\n" + "\n".join(rows) + "\n<!-- seeded:end -->"
p = "/verif/DESIGN.md"
s = open(p).read()
if "SEEDED_TABLE" in s:
    s = s.replace("SEEDED_TABLE", block)
else:
    s = re.sub(r"<!-- seeded:begin -->.*?<!-- seeded:end -->", lambda _: block, s, flags=re.S)
open(p, "w").write(s)
print(len(rows) - 2, "rows")
