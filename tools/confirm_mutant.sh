#!/bin/sh
# tools/confirm_mutant.sh <worktree>   - confirm: suite passes with change; demo fails with, passes without
w=$1
cd $w || exit 3
git diff --quiet -- entrait_macros src && { echo "no change applied"; exit 3; }
echo "--- suite with change"
cargo test --workspace --no-fail-fast --offline 2>&1 | grep -E "^test result|FAILED|error(\[|:)" | awk '/test result/ {p+=$4; f+=$6} !/test result/ {print} END {print p" passed "f" failed"}'
demo_cmd="cargo test --offline"
echo "--- demo with change"
(cd MUTANT/demo && $demo_cmd >/tmp/demo_with.log 2>&1; echo "rc=$?"; grep -E "^test result|^error" /tmp/demo_with.log | head -5)
git diff -- entrait_macros src > /tmp/confirm_patch.diff
git checkout -- entrait_macros src
echo "--- demo without change"
(cd MUTANT/demo && $demo_cmd >/tmp/demo_without.log 2>&1; echo "rc=$?"; grep -E "^test result|^error" /tmp/demo_without.log | head -5)
git apply /tmp/confirm_patch.diff
rm -rf MUTANT/demo/target
